"""C07 — augments are applied exactly once, order-independently, or reported.

Three oracles on every generated schema (schemas rich in augments: chains of up to 6 augments across up to 4
modules and submodules, targets of every kind, and the error variants):
 (i)   tie: the extracted model (coq/Model/Schema.v, command `resolve`) and the implementation (command `process`)
       must give the same canonical forest, or both an error;
 (ii)  order-independence on the IMPLEMENTATION alone: the same module set loaded in several orders, and with the
       augment statements inside each module permuted, run several times (Go's map iteration order differs from run
       to run): all runs must agree on clean-vs-error and all clean runs must give the identical canonical forest;
       a pair of runs that differ is the replay;
 (iii) the model run with several `order` arguments (the explicit map-iteration order of the model) must agree
       with itself: a test of theorem C07_T2 on the extracted code.
A fourth family, "auto-loaded": the module set plus a module atop that imports every module; some modules (all, the
augmenting ones, a random subset) are only put on the search path (harness op D) and are read while imports and
includes are resolved: the result must equal that of parsing every module explicitly, and the model's.
Further families: "prefix-sibling" (in one module a failing augment and one whose path STRING extends the failing path
string: exactly the failing statement must be reported - compared by statement position, not wording), "empty-copies"
(childless nodes of a grouping used twice, in the target and inside augment bodies: one copy augmented, or both with
the same child name, which must be clean), "revisions" (two revisions of one module / submodule loaded side by side,
implementation alone: every augment statement of every loaded revision is visible below its target or reported),
"target-revisions" (two revisions of the AUGMENTED module, importers pinning the older, the newer or no revision: every
augment is visible exactly in the revision its import denotes, or reported when that revision lacks the target),
"conflict-then-removed" (two augments that conflict on a target which a deviate not-supported then removes, itself or
through an ancestor: the conflict must still be reported), "late-parse" (history on one Modules value: target modules
parsed, GetModule, augmenting modules parsed, GetModule again - must equal the fresh batch; harness command c18proc),
"implicit-case-rpc-only" (shorthand choice members only inside rpc / action input and output, chains starting below the
case FixChoice inserts there), "submodule-prefixes" (augments written in a submodule whose own imports / belongs-to prefix differ from its module's:
only the submodule imports the target, module and submodule bind one prefix to different modules, belongs-to prefix
unlike the module's own), "nothing-to-graft" (augments that define no node: `augment "p";`, `augment "p" { }`, a body of
only description / reference / status / when, only `uses` of groupings without nodes (empty, nested-empty, holding only an
unused grouping) - for the model all of them are augments with an EMPTY body - on targets that are missing, leaves,
leaf-lists, bad steps under an rpc, typos below / leaves of what another augment adds, below an augment that itself fails
(all must be reported, at exactly their statements), or that exist / are created by another augment (must be clean and
change nothing); 1-3 of them per set among ordinary augments, alone in their module or not, in every written position).
Every clean implementation result must also have an empty `treeviol`, no entry with augments left (`naugments`) and
(iv) every node each augment defines below its target exactly once, attributed to the augmenting module's namespace
(an oracle on the implementation's dump alone); schemas built with an error variant (missing target, leaf target,
conflicting pair, bad step under an rpc) must be reported as errors, schemas whose augments all have existing targets
must resolve.  Augment arguments are absolute schema node identifiers throughout: a relative one is outside the YANG
grammar (the implementation starts Find at the augment entry itself, which the model does not represent)."""
import itertools
import json
import os
import random
import re
import shutil
import tempfile

import lib
from props import schema_gen as sg

RE_MAUG = re.compile(r"maug(\d)")


# ------------------------------------------------------------------ constructors
def mk(name, prefix, belongs=None, imports=(), includes=()):
    return dict(name=name, prefix=prefix, ns="" if belongs else "urn:" + name, belongs=belongs,
                imports=list(imports), includes=list(includes), body=[], augments=[], deviations=[])


def leaf(n, ty="string"):
    return ("leaf", n, ty, None, None, None, None)


def cont(n, body=()):
    return ("container", n, None, list(body))


# target kinds -> steps inside module t (see target_module)
TARGETS = {
    "container": [["c"], ["c", "cc"]],
    "list": [["li"]],
    "choice": [["ch"]],
    "case": [["ch", "ca"]],
    "rpc-input": [["r2", "input"]],
    "rpc-output": [["r2", "output"]],
    "rpc-input-implicit": [["r", "input"]],
    "rpc-output-implicit": [["r", "output"], ["r2b", "output"]],
    "action-input": [["ca2", "act", "input"]],
    "action-output-implicit": [["ca2", "act", "output"]],
    "notification": [["n"]],
    "uses-created": [["cu", "gc"]],
    "submodule-created": [["sc"]],
    "nested-uses-in-case": [["ch", "cg", "gc"]],
    "empty-in-grouping-copy": [["u1", "eo"], ["u2", "eo"], ["u1", "el"], ["u2", "el"], ["u1", "ech", "ecs"], ["u2", "ech"]],
}
# (failing steps, error kind, sibling with a target whose path string extends the failing path string)
PREFIX_SIBLINGS = [
    (["name"], "leaf", ["name-servers"]),
    (["opt"], "missing", ["options"]),
    (["c", "l"], "leaf", ["c", "lx"]),
    (["c", "c"], "missing", ["c", "cc"]),
    (["r2", "in"], "rpc-bad-step", ["r2", "input"]),
    (["u1", "e"], "missing", ["u1", "eo"]),
]
# the RFC 7950 path of a node below a shorthand case member: exists only once FixChoice has inserted the case
IC_TARGETS = {"implicit-case-path": [["ch", "shc", "shc"]]}
ERR_TARGETS = {
    "missing": [["nope"], ["c", "nope"], ["ch", "ca", "nope"]],
    "leaf": [["c", "l"], ["li", "k"], ["r2", "input", "i"]],
    "rpc-bad-step": [["r", "bogus"], ["r", "bogus", "input"], ["r2", "inputt"], ["ca2", "act", "zz"]],
}


def target_module():
    t = mk("t", "t", includes=["ts"])
    t["body"] = [
        ("grouping", 1, "g1", [cont("gc", [leaf("gl")]), leaf("g2")]),
        cont("c", [leaf("l"), cont("cc", [leaf("l2")])]),
        ("list", "li", "k", None, None, None, [leaf("k")]),
        ("choice", "ch", None, None, None, [("case", "ca", [leaf("x")]), leaf("sh"), cont("shc", [leaf("y")]),
                                            ("case", "cg", [("uses", "g1")])]),
        ("rpc", False, "r", None, None),
        ("rpc", False, "r2", [leaf("i")], [leaf("o")]),
        ("rpc", False, "r2b", [leaf("i")], None),
        ("notification", "n", [leaf("nl")]),
        cont("cu", [("uses", "g1")]),
        cont("ca2", [("rpc", True, "act", [leaf("ai")], None)]),
        # names that are textual prefixes of a sibling's name (a path lookup must compare steps, not strings)
        leaf("name"), cont("name-servers", [leaf("ns1")]), cont("options", [leaf("o1")]),
        # childless nodes in a grouping that is used twice: every use must be an independent copy
        ("grouping", 2, "g2", [cont("eo"), ("list", "el", None, None, None, None, []),
                               ("choice", "ech", None, None, None, [("case", "ecs", [])])]),
        cont("u1", [("uses", "g2")]),
        cont("u2", [("uses", "g2")]),
    ]
    t["body"][1] = cont("c", [leaf("l"), cont("lx", [leaf("lxl")]), cont("cc", [leaf("l2")])])
    ts = mk("ts", "t", belongs="t")
    ts["body"] = [cont("sc", [leaf("sl")])]
    return t, ts


def path_of(pfx, steps, style="full"):
    if style == "none":       # no prefix at all: the names are the current module's (only valid towards the own module)
        return "/" + "/".join(steps)
    if style == "first":      # only the first step prefixed (later prefixes are optional in YANG 1.1)
        return "/" + "/".join((pfx + ":" + s) if i == 0 else s for i, s in enumerate(steps))
    return "/" + "/".join(pfx + ":" + s for s in steps)


class AGen:
    """one schema: the target module t (+ submodule ts), augmenting modules m1..m3 (+ submodule m1s), augments"""

    def __init__(self, rnd):
        self.r = rnd
        self.uid = 0

    def fresh(self, stem):
        self.uid += 1
        return "%s%d" % (stem, self.uid)

    def modules(self, n_aug_mods):
        t, ts = target_module()
        mods = [t, ts]
        owners = [(t, "t"), (ts, "t")]
        for i in range(1, n_aug_mods + 1):
            p = self.r.choice(["t", "x%d" % i, "tt"])
            m = mk("maug%d" % i, "p%d" % i, imports=[(p, "t")])
            m["body"] = [("grouping", 10 + i, "mg%d" % i, [leaf("ml%d" % i), cont("mgc%d" % i, [leaf("mgl%d" % i)]),
                                                           cont("mge%d" % i)])]
            mods.append(m)
            owners.append((m, p))
            if i == 1 and self.r.random() < 0.5:
                s = mk("maug1s", "p1", belongs="maug1", imports=[(p, "t")])
                m["includes"].append("maug1s")
                mods.append(s)
                owners.append((s, p))
        return mods, owners

    def aug_body(self, owner, kind, cont_name):
        """children an augment adds: a container (so that a chain can continue below it) plus variety"""
        r = self.r
        m = owner[0]
        body = []
        inner = [leaf(self.fresh("al"))]
        gname = next((n[2] for n in m["body"] if n[0] == "grouping"), None)
        if gname and r.random() < 0.35:
            inner.append(("uses", gname))          # uses expanded inside the augment
        if r.random() < 0.3:
            # a grouping scoped to the container the augment defines, used there by its bare name or with the module's
            # own prefix (for a submodule: its belongs-to prefix), directly or from a nested container
            self.uid += 1
            lg = "lg%d" % self.uid
            ref = r.choice([lg, m["prefix"] + ":" + lg])
            inner.append(("grouping", 1000 + self.uid, lg, [leaf(self.fresh("gl")), cont(self.fresh("gc"), [leaf(self.fresh("gl"))])]))
            if r.random() < 0.5:
                inner.append(("uses", ref))
            else:
                inner.append(cont(self.fresh("gn"), [("uses", ref), leaf(self.fresh("al"))]))
        c = cont(cont_name, inner)
        if kind in ("choice",):
            x = r.random()
            if x < 0.5:
                body.append(("case", self.fresh("acs"), [c]))
                sub = [body[0][1], cont_name]      # path below: case name, container
            else:
                body.append(c)                      # shorthand member
                sub = [cont_name]                   # goyang's path until FixChoice: directly below the choice
            if r.random() < 0.4:
                body.append(leaf(self.fresh("ash")))
            return body, sub
        body.append(c)
        if r.random() < 0.5:
            body.append(leaf(self.fresh("al")))
        if r.random() < 0.15:
            body.append(("choice", self.fresh("ach"), None, None, None, [leaf(self.fresh("al")), ("case", self.fresh("acs"), [leaf(self.fresh("al"))])]))
        return body, [cont_name]

    def schema(self, chain_len=None, n_chains=None, errors=(), ic=False, n_aug_mods=None, style=None):
        r = self.r
        n_aug_mods = n_aug_mods if n_aug_mods is not None else r.randint(1, 3)
        mods, owners = self.modules(n_aug_mods)
        meta = dict(kinds=[], chains=[], errors=list(errors), ic=ic)
        n_chains = n_chains or r.randint(1, 3)
        used_targets = set()
        for _ in range(n_chains):
            table = dict(TARGETS)
            if ic:
                table = dict(IC_TARGETS)
            kind = r.choice(sorted(table))
            steps = list(r.choice(table[kind]))
            if tuple(steps) in used_targets and kind == "choice":
                continue
            used_targets.add(tuple(steps))
            k = chain_len or r.choice([1, 1, 2, 2, 3, 4, 5, 6])
            meta["kinds"].append(kind)
            meta["chains"].append(k)
            cur_kind = kind
            for i in range(k):
                owner = r.choice(owners)
                body, sub = self.aug_body(owner, cur_kind, self.fresh("x"))
                st = style or r.choice(["full", "full", "first"])
                owner[0]["augments"].append((path_of(owner[1], steps, st), body))
                steps = steps + sub
                cur_kind = "container"
        for e in errors:
            owner = r.choice(owners)
            if e == "conflict":
                o2 = r.choice(owners)
                tgt = r.choice([["c"], ["li"], ["n"], ["r", "input"], ["ch", "ca"], ["cu", "gc"]])
                nm = self.fresh("dup")
                owner[0]["augments"].append((path_of(owner[1], tgt), [leaf(nm)]))
                o2[0]["augments"].append((path_of(o2[1], tgt), [r.choice([leaf(nm, "int8"), cont(nm)])]))
            elif e == "conflict-existing":
                tgt, nm = r.choice([(["c"], "l"), (["ch"], "sh"), (["r2", "input"], "i"), (["cu"], "gc")])
                owner[0]["augments"].append((path_of(owner[1], tgt), [leaf(nm)]))
            elif e == "prefix-sibling":
                # in ONE module: an augment that can never be applied and one whose path string extends its path string
                bad, _, good = r.choice(PREFIX_SIBLINGS)
                pair = [(path_of(owner[1], bad), [leaf(self.fresh("el"))]),
                        (path_of(owner[1], good), [leaf(self.fresh("al")), cont(self.fresh("x"), [leaf(self.fresh("al"))])])]
                if r.random() < 0.5:
                    pair.reverse()
                owner[0]["augments"] += pair
                meta.setdefault("bad_paths", []).append(path_of(owner[1], bad))
            else:
                steps = r.choice(ERR_TARGETS[e])
                owner[0]["augments"].append((path_of(owner[1], steps), [leaf(self.fresh("el"))]))
                meta.setdefault("bad_paths", []).append(path_of(owner[1], steps))
        if "prefix-sibling" not in errors:
            for m in mods:
                r.shuffle(m["augments"])
        return mods, meta


# ------------------------------------------------------------------ augments that graft nothing
# An augment statement may define no node at all: no substatements (`augment "p";`, `augment "p" { }`), only statements
# that are not schema nodes (description, reference, status, when), or only `uses` of groupings that define no node.
# The abstract source the model reads has an EMPTY body for all of them (m["augdeco"]: path -> written form; the
# model's a_dir = []); the text the implementation reads is rendered by render_module below.  Whether such an augment
# can be applied is decided by its PATH alone (C07_T3_not_applicable / C07_T3_applicability_ignores_body): a target
# that does not exist or cannot have children is reported exactly like that of an augment full of nodes.
DECO_STMTS = {
    "description": ['description "nothing yet";'],
    "reference": ['reference "RFC 0000";'],
    "status": ["status current;"],
    "when": ['when "1 = 1";'],
    "description+reference": ['description "placeholder";', 'reference "RFC 0000";'],
    "description+status+when": ['description "placeholder";', "status deprecated;", 'when "../x = 1";'],
}
NOTHING_DECOS = [None, "semicolon", "description", "reference", "status", "when", "description+reference", "description+status+when"]
NOTHING_BODIES = ["none", "uses-empty", "uses-empty-twice", "uses-nested-empty", "uses-grouping-of-groupings"]
NOTHING_BAD = ["missing", "leaf", "leaf-list", "rpc-bad-step", "below-augment-typo", "below-failed-augment", "leaf-added-by-augment"]
NOTHING_GOOD = ["exists", "created-by-augment"]


def render_module(m):
    """sg.render_module, plus the written forms of m["augdeco"] (a form that needs an empty body falls back to braces)"""
    deco = m.get("augdeco")
    if not deco:
        return sg.render_module(m)
    s = sg.render_module(dict(m, augments=[], deviations=[]))[:-2]
    for path, body in m["augments"]:
        form = deco.get(path)
        if form == "semicolon" and not body:
            s += "  augment %s;\n" % sg.q(path)
            continue
        s += "  augment %s {\n%s%s  }\n" % (sg.q(path), "".join("    %s\n" % x for x in DECO_STMTS.get(form, [])),
                                           "".join(sg.render_node(c, "    ") for c in body))
    for path, dvs in m["deviations"]:
        s += "  deviation %s {\n%s  }\n" % (sg.q(path), "".join(sg.render_deviate(d) for d in dvs))
    return s + "}\n"


def go_case(schema, opts="-", ops=None, order=None):
    """sg.go_case with this file's renderer"""
    mods = schema if order is None else [next(m for m in schema if m["name"] == n) for n in order]
    ops = ops or ",".join(["L%d" % i for i in range(len(mods))] + ["P"])
    toks = ["process", opts, ops, str(len(mods))]
    for m in mods:
        toks += [sg.hx(m["name"] + ".yang"), sg.hx(render_module(m))]
    return " ".join(toks)


def nothing_body(g, m, how):
    """a statement list that defines no node, written with groupings that m itself declares"""
    r = g.r
    if how == "none":
        return []
    g.uid += 1
    ge = "ge%d" % g.uid
    ref = lambda n: r.choice([n, m["prefix"] + ":" + n])
    m["body"].append(("grouping", 2000 + g.uid, ge, []))
    if how == "uses-empty":
        return [("uses", ref(ge))]
    if how == "uses-empty-twice":
        return [("uses", ref(ge)), ("uses", ref(ge))]
    g.uid += 1
    gw = "gw%d" % g.uid
    if how == "uses-nested-empty":
        m["body"].append(("grouping", 2000 + g.uid, gw, [("uses", ref(ge))]))
    else:   # a grouping that only declares another grouping (never used): still no node
        m["body"].append(("grouping", 2000 + g.uid, gw, [("grouping", 3000 + g.uid, "gi%d" % g.uid, [leaf(g.fresh("gl"))])]))
    return [("uses", ref(gw))]


def nothing_schema(g, first=None):
    """one module set with 1-3 augments that graft nothing, each on a target of a class of NOTHING_BAD / NOTHING_GOOD,
    among 0-2 ordinary augments; first = (deco, body kind, target class) of the first one (the sweep), the others random"""
    r = g.r
    mods, owners = g.modules(r.randint(1, 3))
    t = mods[0]
    t["body"] += [("leaflist", "lls", "string", None, [], None, None),
                  cont("c2", [("leaflist", "ll2", "int8", None, [], None, None), leaf("l3")])]
    meta = dict(kinds=[], chains=[], errors=[], ic=False, bad_paths=[], nothing=[])
    plain = [["c"], ["c", "cc"], ["li"], ["n"], ["r", "input"], ["r2", "output"], ["cu", "gc"], ["sc"], ["options"], ["u1", "eo"]]

    def add(owner, steps, body, deco=None, bad=False):
        path = path_of(owner[1], steps, r.choice(["full", "full", "first"]))
        owner[0]["augments"].append((path, body))
        if deco:
            owner[0].setdefault("augdeco", {})[path] = deco
        if bad:
            meta["bad_paths"].append(path)
        return path

    specs = [first] if first else []
    while len(specs) < (r.choice([1, 1, 2, 3]) if first else r.choice([1, 2, 2, 3])):
        specs.append((r.choice(NOTHING_DECOS), r.choice(NOTHING_BODIES), r.choice(NOTHING_BAD + NOTHING_GOOD + NOTHING_GOOD)))
    one_owner = r.choice(owners) if r.random() < 0.4 else None      # all of them in one module: it has nothing else pending
    for deco, how, cls in specs:
        owner = one_owner or r.choice(owners)
        if deco == "semicolon":
            how = "none"
        body = nothing_body(g, owner[0], how)
        bad = cls in NOTHING_BAD
        if cls == "missing":
            steps = list(r.choice(ERR_TARGETS["missing"] + [["cu", "gc", "nope"], ["r2", "input", "nope"], ["sc", "nope"]]))
        elif cls == "leaf":
            steps = list(r.choice(ERR_TARGETS["leaf"] + [["name"], ["cu", "g2"], ["sc", "sl"]]))
        elif cls == "leaf-list":
            steps = list(r.choice([["lls"], ["c2", "ll2"]]))
        elif cls == "rpc-bad-step":
            steps = list(r.choice(ERR_TARGETS["rpc-bad-step"]))
        elif cls == "exists":
            steps = list(r.choice(TARGETS[r.choice(sorted(TARGETS))]))
        else:
            # relative to what another (ordinary) augment adds
            o2 = r.choice(owners)
            nm, lf_ = g.fresh("x"), g.fresh("al")
            base = list(r.choice(plain)) if cls != "below-failed-augment" else list(r.choice([["nope2"], ["c", "nope2"], ["c", "l"]]))
            add(o2, base, [cont(nm, [leaf(g.fresh("al"))]), leaf(lf_)], bad=(cls == "below-failed-augment"))
            steps = base + {"created-by-augment": [nm], "below-augment-typo": [nm, "nope"], "below-failed-augment": [nm],
                            "leaf-added-by-augment": [lf_]}[cls]
        add(owner, steps, body, deco, bad)
        meta["kinds"].append("nothing-to-graft:" + cls)
        meta["nothing"].append([deco or "braces", how, cls])
        if bad:
            meta["errors"].append("nothing-to-graft:" + cls)
        meta["chains"].append(1)
    for _ in range(r.choice([0, 1, 1, 2])):
        o = r.choice(owners)
        add(o, list(r.choice(plain)), [leaf(g.fresh("al")), cont(g.fresh("x"), [leaf(g.fresh("al"))])],
            deco=r.choice([None, None, "description", "when"]))
    for m in mods:
        r.shuffle(m["augments"])
    if not meta["bad_paths"]:
        del meta["bad_paths"]
    return mods, meta


def nothing_cases(rnd, tier):
    out = []
    # every written form on every class of bad target (the statement must be reported, whatever it holds) ...
    decos = [(d, "none") for d in NOTHING_DECOS] + [(None, b) for b in NOTHING_BODIES[1:]] + [("description", "uses-empty")]
    for rep in range(1 if tier == "quick" else 6):
        for i, (deco, how) in enumerate(decos):
            for k, cls in enumerate(NOTHING_BAD):
                if tier == "quick" and (i + k) % 2 and cls not in ("missing", "leaf"):
                    continue
                out.append(nothing_schema(AGen(rnd), (deco, how, cls)) + ("nothing-to-graft",))
    # ... and random mixtures, half of them on good targets (must be clean and change nothing)
    for _ in range(40 if tier == "quick" else 600):
        out.append(nothing_schema(AGen(rnd)) + ("nothing-to-graft",))
    return out


# ------------------------------------------------------------------ helpers
def permute_augments(schema, rnd):
    out = []
    for m in schema:
        m2 = dict(m)
        a = list(m["augments"])
        rnd.shuffle(a)
        m2["augments"] = a
        out.append(m2)
    return out


def rename_modules(schema, rnd):
    """the same module set with the names of the augmenting modules permuted (maug1..maug3): the sorted visiting order
    of Process changes with it; returns (schema', inverse digit map) or None when there is nothing to permute"""
    digits = sorted({m["name"][4] for m in schema if m["name"].startswith("maug")})
    if len(digits) < 2:
        return None
    perm = list(digits)
    while perm == digits:
        rnd.shuffle(perm)
    fwd = dict(zip(digits, perm))

    def rn(name):
        return RE_MAUG.sub(lambda mo: "maug" + fwd[mo.group(1)], name) if name else name
    out = []
    for m in schema:
        m2 = dict(m)
        m2["name"] = rn(m["name"])
        m2["ns"] = rn(m["ns"])
        m2["belongs"] = rn(m["belongs"])
        m2["imports"] = [(p, rn(mn)) for p, mn in m["imports"]]
        m2["includes"] = [rn(x) for x in m["includes"]]
        out.append(m2)
    return out, {v: k for k, v in fwd.items()}


def split_top(text):
    """the module trees of a canonical forest text"""
    body = text[3:] if text.startswith("ok ") else text
    parts, depth, cur, inq = [], 0, [], False
    for ch in body:
        if ch == '"':
            inq = not inq
        if not inq:
            if ch == "(":
                depth += 1
            elif ch == ")":
                depth -= 1
        if depth == 0 and ch == " " and not inq:
            if cur:
                parts.append("".join(cur))
                cur = []
            continue
        cur.append(ch)
    if cur:
        parts.append("".join(cur))
    return parts


def unrename(text, inv):
    if text is None or inv is None:
        return text
    parts = [RE_MAUG.sub(lambda mo: "maug" + inv[mo.group(1)], p) for p in split_top(text)]
    return "ok " + " ".join(sorted(parts, key=lambda p: p.split('"')[1].encode()))


def crosses_implicit_case(schema):
    """some augment path goes through the case that FixChoice inserts around a shorthand choice member"""
    byname = {m["name"]: m for m in schema}
    for m in schema:
        for path, _ in m["augments"]:
            steps = [s.split(":")[-1] for s in path.strip("/").split("/")]
            first = path.strip("/").split("/")[0]
            pfx = first.split(":")[0] if ":" in first else None
            tgt = None
            own = byname[m["belongs"]] if m["belongs"] else m
            if pfx is None or pfx == m["prefix"]:
                tgt = own
            else:
                for p, mn in m["imports"]:
                    if p == pfx:
                        tgt = byname.get(mn)
            if tgt is None:
                continue
            for psteps, kind, _ in sg.expand_paths(schema, tgt, None):
                if kind.endswith("-in-implicit-case") and steps[:len(psteps)] == psteps:
                    return True
    # a shorthand member added by an augment and then addressed through its future case
    for m in schema:
        for path, _ in m["augments"]:
            steps = [s.split(":")[-1] for s in path.strip("/").split("/")]
            for a, b in zip(steps, steps[1:]):
                if a == b:
                    return True
    return False


def walk_nodes(n):
    yield n
    for c in n.get("children") or []:
        yield from walk_nodes(c)
    for k in ("input", "output"):
        if n.get(k):
            yield from walk_nodes(n[k])


def go_clean_defects(j):
    """treeviol / left-over augments in a clean implementation result"""
    run = j["runs"][-1]
    bad = list(run.get("treeviol") or [])
    for m in run["modules"]:
        for n in walk_nodes(m["tree"]):
            if n.get("naugments"):
                bad.append("naugments=%d on %s in %s" % (n["naugments"], n["name"], m["name"]))
    return bad


def body_names(owner, body, scopes=()):
    """(name, sub-body, scopes) of the nodes a statement list defines; uses of groupings of the enclosing statement lists
    and of the owner's own top-level groupings expanded"""
    out = []
    here = (body,) + tuple(scopes)
    for n in body:
        k = n[0]
        if k == "uses":
            g, gsc = None, ()
            for i, sc in enumerate(here + (owner["body"],)):
                g = next((x for x in sc if x[0] == "grouping" and x[2] == n[1].split(":")[-1]), None)
                if g:
                    gsc = (here + (owner["body"],))[i:]
                    break
            if g:
                out += body_names(owner, g[3], gsc)
        elif k == "grouping":
            continue
        elif k in ("leaf", "leaflist"):
            out.append((n[1], None, ()))
        elif k == "any":
            out.append((n[2], None, ()))
        elif k == "rpc":
            out.append((n[2], None, ()))
        else:
            out.append((n[1], n[-1], here))
    return out


def child_of(node, name):
    if node.get("hasrpc") and name in ("input", "output"):
        return node.get(name)
    for c in node.get("children") or []:
        if c["name"] == name:
            return c
    return None


def through_implicit_case(node):
    """the member below the case that FixChoice inserted (a case holding a node of its own name)"""
    if node is not None and node["kind"] == "Case":
        inner = child_of(node, node["name"])
        if inner is not None and len(node.get("children") or []) == 1:
            return inner
    return None


def applied_defects(schema, j):
    """oracle on a clean implementation result alone: every augment's nodes are below its target, once, and they and
    their descendants are attributed to the augmenting module's namespace (own generator's schemas only)"""
    byname = {m["name"]: m for m in schema}
    trees = {m["name"]: m["tree"] for m in j["runs"][-1]["modules"] if not m["sub"]}
    bad = []
    for m in schema:
        own = byname[m["belongs"]] if m["belongs"] else m
        for path, body in m["augments"]:
            parts = path.strip("/").split("/")
            pfx = parts[0].split(":")[0] if ":" in parts[0] else None
            tgt = own if pfx in (None, m["prefix"]) else next((byname[mn] for p, mn in m["imports"] if p == pfx), None)
            if tgt is None or tgt["name"] not in trees:
                bad.append("%s: augment %s: no tree for the target module" % (m["name"], path))
                continue
            node = trees[tgt["name"]]
            for i, part in enumerate(parts):
                name = part.split(":")[-1]
                nxt = child_of(node, name)
                if nxt is None and through_implicit_case(node) is not None:
                    nxt = child_of(through_implicit_case(node), name)
                node = nxt
                if node is None:
                    break
            if node is None:
                bad.append("%s: augment %s: the target is not in the result although Process reported no error" % (m["name"], path))
                continue
            if through_implicit_case(node) is not None and not any(b[0] == "case" for b in body) and node["name"] != parts[-1].split(":")[-1] + "#":
                inner = through_implicit_case(node)
                # the path named the shorthand member before the case was inserted
                if all(child_of(inner, nm) is not None for nm, _, _ in body_names(m, body)):
                    node = inner

            def check(holder, names, where):
                for nm, sub, sc in names:
                    cs = [c for c in (holder.get("children") or []) if c["name"] == nm]
                    if len(cs) != 1:
                        bad.append("%s: augment %s: %d node(s) named %s below %s" % (m["name"], path, len(cs), nm, where))
                        continue
                    c = cs[0]
                    if c["ns"] != own["ns"]:
                        bad.append("%s: augment %s: node %s/%s has namespace %s, not %s" % (m["name"], path, where, nm, c["ns"], own["ns"]))
                    inner = through_implicit_case(c)
                    if inner is not None and holder["kind"] == "Choice":
                        if inner["ns"] != own["ns"]:
                            bad.append("%s: augment %s: node %s/%s/%s has namespace %s, not %s" % (m["name"], path, where, nm, nm, inner["ns"], own["ns"]))
                        c = inner
                    if sub:
                        check(c, body_names(m, sub, sc), where + "/" + nm)
            check(node, body_names(m, body), path)
    return bad


def augment_lines(m):
    """1-based line of every augment statement in the rendered text of m, in written order"""
    return [i + 1 for i, l in enumerate(render_module(m).split("\n")) if l.startswith("  augment ")]


def expected_reports(schema, bad_paths):
    """(file, line) of the augment statements that cannot be applied"""
    out = set()
    for m in schema:
        for (path, _), line in zip(m["augments"], augment_lines(m)):
            if path in bad_paths:
                out.add((m["name"] + ".yang", line))
    return out


def reported_positions(j):
    out = set()
    for pos in j["runs"][-1]["errpos"]:
        parts = pos.split(":")
        if len(parts) >= 2 and parts[1].lstrip("-").isdigit():
            out.add((parts[0], int(parts[1])))
        else:
            out.add((pos, 0))
    return out


def rev_text(kind, name, prefix, ns, revs, augments, belongs=None, includes=(), imports=(("t", "t", None),)):
    """module text with revision statements; returns (text, [(line, path, leaf name, has target)])"""
    L = []
    if belongs is None:
        L += ["module %s {" % name, '  namespace "%s";' % ns, "  prefix %s;" % prefix]
    else:
        L += ["submodule %s {" % name, "  belongs-to %s { prefix %s; }" % (belongs, prefix)]
    for imod, ipfx, ird in imports:
        L.append("  import %s { prefix %s; %s}" % (imod, ipfx, "revision-date %s; " % ird if ird else ""))
    for inc, rd in includes:
        L.append("  include %s%s" % (inc, " { revision-date %s; }" % rd if rd else ";"))
    for r in revs:
        L.append("  revision %s;" % r)
    marks = []
    for path, lf, good in augments:
        marks.append((len(L) + 1, path, lf, good))
        L += ['  augment "%s" {' % path, "    leaf %s { type string; }" % lf, "  }"]
    L.append("}")
    return "\n".join(L) + "\n", marks


def revision_cases(rnd, n):
    """two revisions of one module / submodule loaded side by side: (label, [(file, text)], [(file, line, steps, leaf, ns, good)])"""
    t, ts = target_module()
    base = [("t.yang", render_module(t)), ("ts.yang", render_module(ts))]
    out = []
    good_targets = [["c"], ["li"], ["n"], ["r", "input"], ["cu", "gc"], ["u1", "eo"], ["options"]]
    bad_targets = [["nowhere"], ["c", "l"], ["c", "nope"], ["name"]]
    for k in range(n):
        sub = k % 3 == 2
        olds, news = [], []
        for side, lst in (("old", olds), ("new", news)):
            for i in range(rnd.randint(1, 2)):
                lst.append(("/" + "/".join("t:" + x for x in rnd.choice(good_targets)), "%s%d%s" % (side, k, "abc"[i]), True))
            if rnd.random() < 0.45:
                lst.append(("/" + "/".join("t:" + x for x in rnd.choice(bad_targets)), "lost%s%d" % (side, k), False))
            rnd.shuffle(lst)
        files, marks = list(base), []
        if not sub:
            for fname, revs, augs in (("ext@2020-01-01.yang", ["2020-01-01"], olds), ("ext@2021-06-01.yang", ["2021-06-01", "2020-01-01"], news)):
                text, ms_ = rev_text("module", "ext", "e", "urn:ext", revs, augs)
                files.append((fname, text))
                marks += [(fname, ln, path, lf, "urn:ext", good) for ln, path, lf, good in ms_]
        else:
            htext, _ = rev_text("module", "host", "h", "urn:host", [], [], includes=[("hsub", rnd.choice([None, "2021-06-01", "2020-01-01"]))])
            files.append(("host.yang", htext))
            for fname, revs, augs in (("hsub@2020-01-01.yang", ["2020-01-01"], olds), ("hsub@2021-06-01.yang", ["2021-06-01"], news)):
                text, ms_ = rev_text("submodule", "hsub", "h", "", revs, augs, belongs="host")
                files.append((fname, text))
                marks += [(fname, ln, path, lf, "urn:host", good) for ln, path, lf, good in ms_]
        out.append(("submodule-revisions" if sub else "module-revisions", files, marks))
    return out


def target_revision_cases(rnd, n):
    """two revisions of the AUGMENTED module side by side, importers that pin the older one, the newer one, or none (= the
    latest): (label, [(file, text)], [(file, line, revision denoted, path, leaf, ns, has target there)])"""
    revs = ["2019-01-01", "2020-01-01"]
    out = []
    for k in range(n):
        files = []
        for r in revs:
            y = r[:4]
            files.append(("a@%s.yang" % r,
                          'module a {\n  namespace "urn:a";\n  prefix a;\n  revision %s;\n  container c {\n    leaf own { type string; }\n  }\n'
                          '  container only%s {\n    leaf o%s { type string; }\n  }\n  rpc r%s;\n}\n' % (r, y, y, y)))
        marks = []
        importers = [("b%d" % k, revs[0]), ("c%d" % k, None), ("d%d" % k, revs[1])]
        rnd.shuffle(importers)
        with_bad = rnd.random() < 0.35
        for name, pin in importers[:rnd.randint(2, 3)]:
            denotes = pin or revs[1]
            y, other = denotes[:4], (revs[0] if denotes == revs[1] else revs[1])[:4]
            cands = [(["c"], True), (["only" + y], True), (["r" + y, "input"], True)]
            if with_bad:
                cands += [(["only" + other], False), (["r" + other, "input"], False)]
            rnd.shuffle(cands)
            augs = [("/" + "/".join("p:" + x for x in st), "%s%s" % (name, "xyzw"[i]), good) for i, (st, good) in enumerate(cands[:rnd.randint(1, 3)])]
            text, ms_ = rev_text("module", name, name, "urn:" + name, [], augs, imports=[("a", "p", pin)])
            files.append((name + ".yang", text))
            marks += [(name + ".yang", ln, denotes, path, lf, "urn:" + name, good) for ln, path, lf, good in ms_]
        out.append(("target-revisions", files, marks))
    return out


def target_revision_defects(marks, line):
    """every augment is visible, once, in the tree of the revision its import denotes and in no other revision of that
    module, or - when that revision has no such target - reported at its statement; nothing else is reported"""
    if not line.startswith("{"):
        return ["implementation neither resolved nor reported: " + line[:120]]
    j = json.loads(line)
    if any(l.startswith("err") for l in j["loads"]):
        return ["a text was rejected at load: %s" % j["loads"]]
    run = j["runs"][-1]
    bad = []
    want = {(f, ln) for f, ln, rev, path, lf, ns, good in marks if not good}
    got = reported_positions(j)
    if want != got:
        bad.append("reported %s %s, the augments without target in the imported revision are at %s" % (sorted(got), run["errors"][:2], sorted(want)))
    if not run["errors"]:
        trees = {m.get("rev"): m["tree"] for m in run["modules"] if m["name"] == "a" and not m["sub"]}
        for f, ln, rev, path, lf, ns, good in marks:
            for r, tree in trees.items():
                node = tree
                for part in path.strip("/").split("/"):
                    node = child_of(node, part.split(":")[-1]) if node is not None else None
                cs = [c for c in ((node or {}).get("children") or []) if c["name"] == lf]
                if r == rev and len(cs) != 1:
                    bad.append("augment at %s:%d: %d node(s) %s below %s of a@%s, the revision its import denotes" % (f, ln, len(cs), lf, path, r))
                elif r == rev and cs[0]["ns"] != ns:
                    bad.append("augment at %s:%d: %s has namespace %s, not %s" % (f, ln, lf, cs[0]["ns"], ns))
                elif r != rev and cs:
                    bad.append("augment at %s:%d: %s also appears below %s of a@%s, which its import does not denote" % (f, ln, lf, path, r))
        bad += go_clean_defects(j)
    return bad


def revision_line(files, order):
    toks = ["process", "-", ",".join(["L%d" % i for i in range(len(order))] + ["P"]), str(len(order))]
    for i in order:
        toks += [sg.hx(files[i][0]), sg.hx(files[i][1])]
    return " ".join(toks)


def revision_defects(marks, line):
    """every augment statement of every loaded revision is applied (visible below its target, in the module's namespace)
    or reported (an error positioned at the statement); nothing else is reported"""
    if not line.startswith("{"):
        return ["implementation neither resolved nor reported: " + line[:120]]
    j = json.loads(line)
    if any(l.startswith("err") for l in j["loads"]):
        return ["a text was rejected at load: %s" % j["loads"]]
    run = j["runs"][-1]
    bad = []
    want = {(f, ln) for f, ln, path, lf, ns, good in marks if not good}
    got = reported_positions(j)
    if want != got:
        bad.append("reported %s, the augments without target are at %s" % (sorted(got), sorted(want)))
    if not run["errors"]:
        tree = next(m["tree"] for m in run["modules"] if m["name"] == "t" and not m["sub"])
        for f, ln, path, lf, ns, good in marks:
            node = tree
            for part in path.strip("/").split("/"):
                node = child_of(node, part.split(":")[-1]) if node is not None else None
            cs = [c for c in ((node or {}).get("children") or []) if c["name"] == lf]
            if len(cs) != 1:
                bad.append("augment at %s:%d: %d node(s) %s below %s" % (f, ln, len(cs), lf, path))
            elif cs[0]["ns"] != ns:
                bad.append("augment at %s:%d: %s has namespace %s, not %s" % (f, ln, lf, cs[0]["ns"], ns))
        bad += go_clean_defects(j)
    return bad


def late_parse_line(schema):
    """c18proc history: parse the modules nobody's augments come from first (t and what it includes), GetModule, parse the
    rest, GetModule again.  None when there is nothing to parse late."""
    names = {m["name"] for m in schema}
    early = [m for m in schema if not m["name"].startswith("maug") and m["name"] not in ("hostm", "hs", "atop")]
    # the early part must be closed under import / include
    en = {m["name"] for m in early}
    early = [m for m in early if all(mn in en for _, mn in m["imports"]) and all(i in en for i in m["includes"])
             and (m["belongs"] is None or m["belongs"] in en)]
    en = {m["name"] for m in early}
    late = [m for m in schema if m["name"] not in en]
    probe = next((m["name"] for m in early if m["belongs"] is None), None)
    if not late or probe is None:
        return None
    mods = early + late
    g = "G" + sg.hx(probe)
    ops = ["L%d" % i for i in range(len(early))] + [g] + ["L%d" % i for i in range(len(early), len(mods))] + [g]
    toks = ["c18proc", "-", ",".join(ops), str(len(mods))]
    for m in mods:
        toks += [sg.hx(m["name"] + ".yang"), sg.hx(render_module(m))]
    return " ".join(toks)


def with_top(schema):
    """the module set plus a module `atop` that imports every module: loading atop alone reaches all of them"""
    top = mk("atop", "atop", imports=[("i%d" % i, m["name"]) for i, m in enumerate(schema) if m["belongs"] is None])
    top["body"] = [leaf("toplf")]
    return [top] + list(schema)


def autoload_ops(schema, rnd, how):
    """ops string that parses some modules explicitly (L) and only puts the others on the search path (D): they are read
    while imports / includes are resolved.  schema[0] is atop and always parsed."""
    idx = list(range(1, len(schema)))
    if how == "all":
        auto = set(idx)
    elif how == "augmenters":
        auto = {i for i in idx if schema[i]["augments"]} or set(idx)
    else:
        auto = {i for i in idx if rnd.random() < 0.5} or {rnd.choice(idx)}
    # a submodule is found through its owner's include (or its own belongs-to is never followed): keep a parsed
    # submodule's owner reachable -- it is, atop imports every module
    loads = [i for i in range(len(schema)) if i not in auto]
    rnd.shuffle(loads)
    ops = ["D%d" % i for i in sorted(auto)] + ["L%d" % i for i in loads] + ["P"]
    return ",".join(ops), sorted(schema[i]["name"] for i in auto)


def orders_of(schema, rnd, n):
    names = [m["name"] for m in schema]
    outs = [list(names), list(reversed(names))]
    while len(outs) < n:
        p = list(names)
        rnd.shuffle(p)
        outs.append(p)
    return outs[:n]


def summarize(st, txt):
    return st if st != "ok" else txt


# ------------------------------------------------------------------ the run
def corpus():
    """witnesses of the two repaired defects (D63: the pass after FixChoice was a single pass that still applied augments;
    D64: an unprefixed absolute path in a submodule was resolved in the submodule's private tree) and of the error classes"""
    out = []
    a = mk("a", "a")
    a["body"] = [("choice", "ch", None, None, None, [cont("x", [leaf("y")])])]
    a["augments"] = [("/a:ch/a:x/a:x/a:n", [leaf("z")]), ("/a:ch/a:x/a:x", [cont("n")])]
    out.append(([a], dict(kinds=["implicit-case-path"], chains=[2], errors=[], ic=True, expect="clean"), "corpus-D63"))
    a2 = mk("a", "a")
    a2["body"] = [("choice", "ch", None, None, None, [cont("x", [leaf("y")])])]
    a2["augments"] = [("/a:ch/a:x/a:x", [cont("n")])]
    b2 = mk("maug1", "b", imports=[("a", "a")])
    b2["augments"] = [("/a:ch/a:x/a:x/a:n", [cont("k", [leaf("z")])])]
    c2 = mk("maug2", "c", imports=[("a", "a")])
    c2["augments"] = [("/a:ch/a:x/a:x/a:n/a:k", [leaf("w")])]
    out.append(([a2, b2, c2], dict(kinds=["implicit-case-path"], chains=[3], errors=[], ic=True, expect="clean"), "corpus-D63"))
    for tgt in (["sc"], ["c"], ["n"], ["r", "input"]):
        t, ts = target_module()
        ts["augments"].append((path_of("t", tgt, "none"), [leaf("zz"), cont("zc", [leaf("zl")])]))
        out.append(([t, ts], dict(kinds=["unprefixed"], chains=[1], errors=[], ic=False, expect="clean"), "corpus-D64"))
    return out


def gen(tier, seed):
    rnd = random.Random(seed)
    out = corpus()   # (schema, meta, origin)
    n = 500 if tier == "quick" else 5000
    # chains of every length on every target kind
    for kind in sorted(TARGETS):
        for k in (1, 2, 3, 4, 5, 6):
            if tier == "quick" and k in (3, 5) and kind not in ("container", "choice", "rpc-input-implicit"):
                continue
            g = AGen(rnd)
            tbl = {kind: TARGETS[kind]}
            mods, owners = g.modules(rnd.randint(1, 3))
            meta = dict(kinds=[kind], chains=[k], errors=[], ic=False)
            steps = list(rnd.choice(tbl[kind]))
            cur = kind
            for i in range(k):
                owner = rnd.choice(owners)
                body, sub = g.aug_body(owner, cur, g.fresh("x"))
                owner[0]["augments"].append((path_of(owner[1], steps), body))
                steps = steps + sub
                cur = "container"
            for m in mods:
                rnd.shuffle(m["augments"])
            out.append((mods, meta, "sweep"))
    # random mixtures
    for _ in range(n):
        g = AGen(rnd)
        out.append(g.schema() + ("mix",))
    # error variants, alone and mixed with good chains
    for e in ["missing", "leaf", "rpc-bad-step", "conflict", "conflict-existing"]:  # (prefix-sibling has its own class)
        for _ in range(40 if tier == "quick" else 400):
            g = AGen(rnd)
            out.append(g.schema(errors=[e], n_chains=rnd.choice([1, 1, 2])) + ("error",))
    # a failing augment and, in the same module, one whose path string extends the failing path string (both written orders)
    for _ in range(40 if tier == "quick" else 400):
        g = AGen(rnd)
        out.append(g.schema(errors=["prefix-sibling"], n_chains=rnd.choice([1, 1, 2]), n_aug_mods=rnd.randint(0, 2)) + ("prefix-sibling",))
    # childless nodes of a grouping used twice: one copy augmented, or both with the same child name (must be clean)
    for k in range(24 if tier == "quick" else 240):
        g = AGen(rnd)
        mods, owners = g.modules(rnd.randint(1, 2))
        meta = dict(kinds=["empty-in-grouping-copy"], chains=[1], errors=[], ic=False)
        what = rnd.choice(["eo", "el", "ech"])
        nm = g.fresh("same")
        body = lambda: ([("case", g.fresh("acs"), [leaf(nm)])] if what == "ech" and rnd.random() < 0.5 else [leaf(nm)])
        o1, o2 = rnd.choice(owners), rnd.choice(owners)
        o1[0]["augments"].append((path_of(o1[1], ["u1", what]), body()))
        if k % 2 == 0:
            o2[0]["augments"].append((path_of(o2[1], ["u2", what]), [leaf(nm)] if what != "ech" else body()))
        # the same with childless nodes that an augment brings along twice (uses inside two augments)
        mo = next(o for o in owners if o[0]["name"].startswith("maug") and o[0]["belongs"] is None)
        i = mo[0]["name"][4]
        mo[0]["augments"].append((path_of(mo[1], ["c"]), [("uses", "mg" + i)]))
        mo[0]["augments"].append((path_of(mo[1], ["n"]), [("uses", "mg" + i)]))
        o3 = rnd.choice(owners)
        o3[0]["augments"].append((path_of(o3[1], ["c", "mge" + i]), [leaf(nm)]))
        if k % 3 == 0:
            o3[0]["augments"].append((path_of(o3[1], ["n", "mge" + i]), [leaf(nm)]))
        for m in mods:
            rnd.shuffle(m["augments"])
        out.append((mods, meta, "empty-copies"))
    # augments written in a submodule whose prefix table differs from its module's: the prefixes of the path are the submodule's
    for k in range(36 if tier == "quick" else 360):
        g = AGen(rnd)
        t, ts = target_module()
        other = mk("other", "other")
        other["body"] = [cont("c", [leaf("ol"), cont("cc", [leaf("ol2")])]), cont("options", [leaf("oo")]), ("notification", "n", [leaf("onl")])]
        shape = ["own-import", "clashing-prefix", "belongs-to-prefix"][k % 3]
        host = mk("hostm", "hm", includes=["hs"])
        host["body"] = [cont("mc", [leaf("ml")])]
        if shape == "own-import":          # only the submodule imports the target (or the module does under another prefix)
            sp = rnd.choice(["q", "t", "hm2"])
            sub = mk("hs", "hm", belongs="hostm", imports=[(sp, "t")])
            if rnd.random() < 0.5:
                host["imports"] = [("zz", "t")]
            tsteps, tp = rnd.choice([["c"], ["c", "cc"], ["n"], ["options"], ["r", "input"], ["sc"]]), sp
        elif shape == "clashing-prefix":   # module and submodule bind the same prefix to different modules
            sp = rnd.choice(["q", "x"])
            sub = mk("hs", "hm", belongs="hostm", imports=[(sp, "t")])
            host["imports"] = [(sp, "other")]
            tsteps, tp = rnd.choice([["c"], ["c", "cc"], ["n"], ["options"]]), sp
        else:                              # the belongs-to prefix is not the module's own prefix
            sub = mk("hs", "self", belongs="hostm", imports=[("t", "t")] if rnd.random() < 0.5 else [])
            tsteps, tp = ["mc"], "self"
        nm = g.fresh("x")
        sub["augments"].append((path_of(tp, tsteps), [leaf(g.fresh("al")), cont(nm, [leaf(g.fresh("al"))])]))
        mods = [t, ts, other, host, sub]
        if rnd.random() < 0.5:             # someone continues the chain below what the submodule added
            m1 = mk("maug1", "p1", imports=[("t", "t"), ("h", "hostm")])
            m1["augments"].append((path_of("h" if shape == "belongs-to-prefix" else "t", tsteps + [nm]), [leaf(g.fresh("al"))]))
            mods.append(m1)
        if rnd.random() < 0.3:
            sub["augments"].append((path_of("hm" if shape != "belongs-to-prefix" else "self", ["mc"]), [leaf(g.fresh("al"))]))
        rnd.shuffle(sub["augments"])
        out.append((mods, dict(kinds=["submodule-prefix-table:" + shape], chains=[1], errors=[], ic=False), "submodule-prefixes"))
    # a name conflict between augments whose target (or an ancestor of it) is then removed by deviate not-supported:
    # the conflict must still be reported
    for k in range(36 if tier == "quick" else 360):
        g = AGen(rnd)
        mods, owners = g.modules(rnd.randint(1, 3))
        tgt, removed = rnd.choice([(["c"], ["c"]), (["c", "cc"], ["c", "cc"]), (["c", "cc"], ["c"]), (["li"], ["li"]),
                                   (["cu", "gc"], ["cu", "gc"]), (["cu", "gc"], ["cu"]), (["ch", "ca"], ["ch", "ca"]),
                                   (["ch", "ca"], ["ch"]), (["u1", "eo"], ["u1"]), (["options"], ["options"])])
        o1, o2, o3 = rnd.choice(owners), rnd.choice(owners), rnd.choice(owners)
        if k % 3 == 2:     # the target already has the child
            nm = {"c": "l", "cc": "l2", "li": "k", "gc": "gl", "ca": "x", "eo": None, "options": "o1"}[tgt[-1]]
        else:
            nm = None
        if nm is None:
            nm = g.fresh("dup")
            o1[0]["augments"].append((path_of(o1[1], tgt), [leaf(nm), leaf(g.fresh("al"))]))
        o2[0]["augments"].append((path_of(o2[1], tgt), [rnd.choice([leaf(nm, "int8"), cont(nm)])]))
        if rnd.random() < 0.5:
            o3[0]["augments"].append((path_of(o3[1], ["n"]), [leaf(g.fresh("al"))]))
        dv_owner = rnd.choice([o for o in owners if o[0]["belongs"] is None])
        dv_owner[0]["deviations"].append((path_of(dv_owner[1], removed), [dict(kind="not-supported")]))
        for m in mods:
            rnd.shuffle(m["augments"])
        out.append((mods, dict(kinds=["conflict-under-not-supported"], chains=[1], errors=["conflict"], ic=False), "conflict-then-removed"))
    # shorthand choice members ONLY inside rpc / action input and output (no implied case anywhere else in the set):
    # chains that start below the implied case there, every written order and module order
    for k in range(30 if tier == "quick" else 300):
        g = AGen(rnd)
        t2 = mk("t", "t")
        t2["body"] = [
            cont("c", [leaf("l")]),
            ("choice", "xch", None, None, None, [("case", "xa", [leaf("xl")])]),      # explicit cases only
            ("rpc", False, "r", [("choice", "ich", None, None, None, [cont("x", [leaf("y")]), ("case", "ia", [leaf("il")])])], None),
            ("rpc", False, "ro", None, [("choice", "och", None, None, None, [cont("x", [leaf("y")])])]),
            cont("ca", [("rpc", True, "act", [("choice", "ich", None, None, None, [cont("x", [leaf("y")])])],
                         [("choice", "och", None, None, None, [cont("x", [leaf("y")]), leaf("osh")])])]),
        ]
        mods = [t2]
        owners = [(t2, "t")]
        for i in range(1, rnd.randint(1, 3) + 1):
            p = rnd.choice(["t", "x%d" % i])
            m = mk("maug%d" % i, "p%d" % i, imports=[(p, "t")])
            mods.append(m)
            owners.append((m, p))
        steps = list(rnd.choice([["r", "input", "ich", "x", "x"], ["ro", "output", "och", "x", "x"],
                                 ["ca", "act", "input", "ich", "x", "x"], ["ca", "act", "output", "och", "x", "x"]]))
        n = rnd.choice([2, 2, 3, 4])
        for i in range(n):
            owner = rnd.choice(owners) if k % 2 else owners[min(len(owners) - 1, 1)]     # also: the whole chain in one module
            nm = g.fresh("x")
            owner[0]["augments"].append((path_of(owner[1], steps), [cont(nm, [leaf(g.fresh("al"))]), leaf(g.fresh("al"))]))
            steps = steps + [nm]
        for m in mods:
            rnd.shuffle(m["augments"])
        out.append((mods, dict(kinds=["implicit-case-in-rpc-only"], chains=[n], errors=[], ic=True), "implicit-case-rpc-only"))
    # paths through the implicit case (applied only by the pass after FixChoice)
    for _ in range(120 if tier == "quick" else 1200):
        g = AGen(rnd)
        out.append(g.schema(ic=True, n_chains=1, chain_len=rnd.choice([1, 2, 3])) + ("implicit-case",))
    # unprefixed paths (the names of the current module): from the module itself and from its submodule
    for oi in (0, 1):
        for steps in (["c"], ["li"], ["n"], ["sc"], ["r", "input"], ["cu", "gc"], ["ch", "ca"]):
            g = AGen(rnd)
            mods, owners = g.modules(rnd.randint(0, 1))
            meta = dict(kinds=["unprefixed"], chains=[1], errors=[], ic=False)
            owner = owners[oi]
            owner[0]["augments"].append((path_of("t", steps, "none"), [leaf(g.fresh("ul")), cont(g.fresh("ux"), [leaf(g.fresh("ul"))])]))
            out.append((mods, meta, "unprefixed-from-" + ("submodule" if owner[0]["belongs"] else "module")))
    # the shared random generator, augment-heavy
    for _ in range(150 if tier == "quick" else 1500):
        s = sg.random_schema(rnd, p_aug=1.0, p_dev=0.0, n_modules=rnd.randint(2, 4))
        out.append((s, dict(kinds=["random"], chains=[], errors=[], ic=False), "random_schema"))
    # augments that graft nothing (no substatements, only description / reference / status / when, only uses of groupings
    # without nodes) on targets that are missing, leaves, leaf-lists, bad rpc steps, or exist / are created by another augment
    out += nothing_cases(rnd, tier)
    return rnd, out


NGO_ORDERS = 2      # load orders per variant on the implementation
NML_ORDERS = 3      # `order` arguments on the model (the first is the implementation's: sorted names)


def variants_of(schema, origin, rnd):
    """the metamorphic variants of one schema: (name, schema, inverse renaming)"""
    vs = [("written", schema, None), ("permuted", permute_augments(schema, rnd), None)]
    rn = rename_modules(schema, rnd) if origin != "random_schema" else None
    if rn:
        vs.append(("renamed", rn[0], rn[1]))
    return vs


def autoload_replay_ops(schema, names):
    return ",".join(["D%d" % i for i, m in enumerate(schema) if m["name"] in names] +
                    ["L%d" % i for i, m in enumerate(schema) if m["name"] not in names] + ["P"])


def model_orders(schema, rnd, n):
    names = sorted(m["name"] for m in schema if m["belongs"] is None) + sorted(m["name"] for m in schema if m["belongs"] is not None)
    outs = [None, list(reversed(names))]
    while len(outs) < n:
        p = list(names)
        rnd.shuffle(p)
        outs.append(p)
    return outs[:n]


def run(res, tier, seed, proof):
    rnd, items = gen(tier, seed)
    go_lines, ml_lines, idx = [], [], []
    allv = []
    for si, (schema, meta, origin) in enumerate(items):
        vs = variants_of(schema, origin, rnd)
        allv.append(vs)
        for vname, sch, inv in vs:
            for o in orders_of(sch, rnd, NGO_ORDERS):
                go_lines.append(go_case(sch, order=o))
                idx.append(("go", si, vname, o))
            for o in model_orders(sch, rnd, NML_ORDERS if vname == "written" else 1):
                ml_lines.append(sg.model_case(sch, order=o))
                idx.append(("ml", si, vname, o))
    # family "auto-loaded": the same modules, some of them only found on the search path during import resolution
    auto_lines, auto_idx = [], []
    for si, (schema, meta, origin) in enumerate(items):
        sch = with_top(schema)
        auto_lines.append(go_case(sch))
        auto_idx.append((si, "explicit", None))
        for how in ("all", "augmenters", "random"):
            ops, names = autoload_ops(sch, rnd, how)
            auto_lines.append(go_case(sch, ops=ops))
            auto_idx.append((si, how, names))
        ml_lines.append(sg.model_case(sch))
        idx.append(("mlauto", si, "auto", None))
    # family "late-parse": the target modules are loaded and read with GetModule (a clean run), then the augmenting
    # modules are parsed into the same set and GetModule is asked again: the result must be that of the fresh batch
    late_lines, late_idx = [], []
    for si, (schema, meta, origin) in enumerate(items):
        line = late_parse_line(schema)
        if line:
            late_lines.append(line)
            late_idx.append(si)
    cwd = tempfile.mkdtemp(prefix="c07cwd")
    try:
        go_out = lib.run_go(go_lines, cwd=cwd)
        auto_out = lib.run_go(auto_lines, cwd=cwd)
        late_out = lib.run_go(late_lines, cwd=cwd)
    finally:
        shutil.rmtree(cwd, ignore_errors=True)
    ml_out = lib.run_ml(ml_lines)
    per = {}
    gi = mi = 0
    for kind, si, vname, o in idx:
        d = per.setdefault(si, dict(go=[], ml=[]))
        if kind == "go":
            d["go"].append((vname, o, go_out[gi]))
            gi += 1
        elif kind == "mlauto":
            d["mlauto"] = ml_out[mi]
            mi += 1
        else:
            d["ml"].append((vname, o, ml_out[mi]))
            mi += 1
    hist = dict(by_kind={}, by_chain={}, by_error={}, by_origin={}, clean=0, error=0, go_runs=len(go_lines),
                model_runs=len(ml_lines), model_order_dependent=0, impl_order_dependent=0, tie_mismatch=0,
                error_variant_not_reported=0, clean_defects=0, crosses_implicit_case=0,
                autoload_runs=len(auto_lines), autoload_differs=0, autoload_tie_mismatch=0, autoloaded_modules=0,
                autoloaded_augmenting_modules=0)
    reported = {}

    def report(sig, cls, what, rep):
        reported[cls] = reported.get(cls, 0) + 1
        if reported[cls] <= 2:
            res.violation(what, rep)

    for si, (schema, meta, origin) in enumerate(items):
        d = per[si]
        invs = {vname: inv for vname, sch, inv in allv[si]}
        schemas = {vname: sch for vname, sch, inv in allv[si]}
        hist["by_origin"][origin] = hist["by_origin"].get(origin, 0) + 1
        for k in meta["kinds"]:
            hist["by_kind"][k] = hist["by_kind"].get(k, 0) + 1
        for k in meta["chains"]:
            hist["by_chain"][str(k)] = hist["by_chain"].get(str(k), 0) + 1
        for e in meta["errors"]:
            hist["by_error"][e] = hist["by_error"].get(e, 0) + 1
        ic = crosses_implicit_case(schema)
        hist["crosses_implicit_case"] += 1 if ic else 0
        sig = None
        base = dict(kind="c07", schema=schema, meta=meta, origin=origin)
        gos = []
        for vname, o, line in d["go"]:
            st, txt, j = sg.canon_go(line)
            gos.append((vname, o, st, txt, j, line))
        mls = [(vname, o, "ok" if line.startswith("ok ") else line.split(" ")[0], line if line.startswith("ok ") else None)
               for vname, o, line in d["ml"]]
        crashed = False
        for vname, o, st, txt, j, line in gos:
            if st not in ("ok", "err"):
                report(None, "impl-crash", "implementation neither resolved nor reported: %s" % line[:200],
                       dict(base, what_kind="impl-crash", order=o, variant=vname, schema=schemas[vname]))
                crashed = True
                break
        for vname, o, st, txt in mls:
            if st not in ("ok", "err"):
                report(None, "model-crash", "model driver failed: %s" % st,
                       dict(base, what_kind="model-crash", order=o, variant=vname, schema=schemas[vname]))
                crashed = True
                break
        if crashed:
            continue
        # (iii) the model under several orders
        mw = [x for x in mls if x[0] == "written"]
        if len({summarize(st, txt) for vname, o, st, txt in mw}) > 1:
            hist["model_order_dependent"] += 1
            a = mw[0]
            b = next(x for x in mw if summarize(x[2], x[3]) != summarize(a[2], a[3]))
            report(sig, "model-order", "T2-test: the model's result depends on its order argument: order %s gives %s, order %s gives %s"
                   % (a[1] or "sorted", a[2], b[1], b[2]), dict(base, what_kind="model-order", order_a=a[1], order_b=b[1]))
        # (ii) the implementation against itself: load orders, statement order of augments, module names
        gsum = [(vname, o, st, unrename(txt, invs[vname])) for vname, o, st, txt, j, line in gos]
        if len({summarize(st, txt) for vname, o, st, txt in gsum}) > 1:
            hist["impl_order_dependent"] += 1
            a = gsum[0]
            bi = next(k for k, x in enumerate(gsum) if summarize(x[2], x[3]) != summarize(a[2], a[3]))
            b = gsum[bi]
            report(sig, "impl-order", "order-dependence: the implementation gives %s for the modules as written (load order %s) but %s "
                   "with %s (load order %s)" % (a[2], a[1], b[2],
                                                 {"written": "another load order", "permuted": "the augment statements inside the modules permuted",
                                                  "renamed": "the augmenting modules renamed"}[b[0]], b[1]),
                   dict(base, what_kind="impl-order", order_a=a[1], variant_b=b[0], order_b=b[1], schema_b=schemas[b[0]],
                        errors_a=(gos[0][4] or {}).get("runs", [{}])[-1].get("errors"),
                        errors_b=(gos[bi][4] or {}).get("runs", [{}])[-1].get("errors")))
        # (i) tie, variant by variant: the model at the implementation's visiting order
        for vname in schemas:
            m0 = next(x for x in mls if x[0] == vname and x[1] is None)
            for g0 in (x for x in gos if x[0] == vname):
                if summarize(g0[2], g0[3]) != summarize(m0[2], m0[3]):
                    hist["tie_mismatch"] += 1
                    report(None, "tie", "tie: model-vs-implementation disagree (modules %s): impl=%s model=%s" % (vname, g0[2], m0[2]),
                           dict(base, what_kind="tie", variant=vname, schema=schemas[vname], order=g0[1], impl=(g0[3] or g0[2]),
                                model=(m0[3] or m0[2]), impl_errors=(g0[4] or {}).get("runs", [{}])[-1].get("errors")))
                    break
        # clean results are proper
        for vname, o, st, txt, j, line in gos:
            if st == "ok":
                bad = go_clean_defects(j)
                if origin != "random_schema" and not meta["errors"]:
                    bad += applied_defects(schemas[vname], j)
                if bad:
                    hist["clean_defects"] += 1
                    report(None, "clean-defect", "clean result is not proper: %s" % "; ".join(bad[:3]),
                           dict(base, what_kind="clean-defect", order=o, variant=vname, schema=schemas[vname], defects=bad[:10]))
                    break
        # a schema whose augments all have existing targets that can hold children must resolve
        if (not meta["errors"] and origin != "random_schema"
                and any(st == "err" for vname, o, st, txt, j, line in gos)):
            hist["valid_rejected"] = hist.get("valid_rejected", 0) + 1
            g0 = next(x for x in gos if x[2] == "err")
            report(None, "valid-rejected:" + origin, "every augment has an existing target, yet Process reports: %s"
                   % (g0[4]["runs"][-1]["errors"][:2],),
                   dict(base, what_kind="valid-rejected", variant=g0[0], schema=schemas[g0[0]], order=g0[1]))
        # exactly the augments that cannot be applied are reported (positions of the statements, not wording)
        if meta["errors"] and meta.get("bad_paths") and not set(meta["errors"]) & {"conflict", "conflict-existing"}:
            for vname, o, st, txt, j, line in gos:
                if st != "err":
                    continue
                want = expected_reports(schemas[vname], set(meta["bad_paths"]))
                got = reported_positions(j)
                if want != got:
                    hist["wrong_reports"] = hist.get("wrong_reports", 0) + 1
                    report(None, "wrong-reports", "the augments reported are not the ones that cannot be applied: reported %s, "
                           "without target %s (modules %s)" % (sorted(got), sorted(want), vname),
                           dict(base, what_kind="wrong-reports", variant=vname, schema=schemas[vname], order=o,
                                bad_paths=meta["bad_paths"], errors=j["runs"][-1]["errors"]))
                    break
        # error variants must be reported
        if meta["errors"] and any(st == "ok" for vname, o, st, txt, j, line in gos):
            hist["error_variant_not_reported"] += 1
            report(None, "not-reported", "an augment that cannot be applied (%s) was not reported" % ",".join(meta["errors"]),
                   dict(base, what_kind="not-reported"))
        if all(st == "ok" for vname, o, st, txt, j, line in gos):
            hist["clean"] += 1
        elif all(st == "err" for vname, o, st, txt, j, line in gos):
            hist["error"] += 1
    # auto-loaded family: same result as explicit loading, and as the model
    byschema = {}
    for (si, how, names), line in zip(auto_idx, auto_out):
        byschema.setdefault(si, []).append((how, names, line))
    for si, runs in byschema.items():
        schema, meta, origin = items[si]
        sch = with_top(schema)
        base = dict(kind="c07", schema=sch, meta=meta, origin=origin)
        ref = next(x for x in runs if x[0] == "explicit")
        rst, rtxt, rj = sg.canon_go(ref[2])
        if rst not in ("ok", "err"):
            report(None, "impl-crash", "implementation neither resolved nor reported: %s" % ref[2][:200],
                   dict(base, what_kind="impl-crash"))
            continue
        for how, names, line in runs:
            if how == "explicit":
                continue
            st, txt, j = sg.canon_go(line)
            hist["autoloaded_modules"] += len(names)
            hist["autoloaded_augmenting_modules"] += sum(1 for m in sch if m["name"] in names and m["augments"])
            if summarize(st, txt) != summarize(rst, rtxt):
                hist["autoload_differs"] += 1
                report(None, "autoload", "auto-loading: with %s only found on the search path the implementation gives %s %s, "
                       "parsing every module explicitly gives %s %s"
                       % (names, st, ((j or {}).get("runs") or [{}])[-1].get("errors", line[:80])[:2] if st != "ok" else "",
                          rst, (rj["runs"][-1]["errors"][:2] if rst == "err" else "")),
                       dict(base, what_kind="autoload", auto=names, ops=autoload_replay_ops(sch, names)))
                break
        m = per[si].get("mlauto", "")
        mst = m if m.startswith("ok ") else m.split(" ")[0]
        if mst != summarize(rst, rtxt):
            hist["autoload_tie_mismatch"] += 1
            report(None, "tie", "tie (module set with the importing module atop): impl=%s model=%s" % (rst, m.split(" ")[0]),
                   dict(base, what_kind="tie", variant="atop", impl=(rtxt or rst), model=m[:2000]))
    # late-parse: the second GetModule must see what was parsed after the first
    hist["late_parse_runs"] = len(late_lines)
    hist["late_parse_differs"] = 0
    hist["late_parse_first_run_clean"] = 0
    for si, line in zip(late_idx, late_out):
        schema, meta, origin = items[si]
        ref = next(x for x in per[si]["go"] if x[0] == "written")
        rst, rtxt, rj = sg.canon_go(ref[2])
        st, txt, j = sg.canon_go(line)
        if j and len(j["runs"]) == 2 and not j["runs"][0]["errors"]:
            hist["late_parse_first_run_clean"] += 1
        if summarize(st, txt) != summarize(rst, rtxt):
            hist["late_parse_differs"] += 1
            report(None, "late-parse", "after GetModule, Parse of the augmenting modules and GetModule again the implementation gives %s %s; "
                   "the same modules loaded in one batch give %s %s"
                   % (st, ((j or {}).get("runs") or [{}])[-1].get("errors", line[:80])[:2] if st != "ok" else "",
                      rst, (rj["runs"][-1]["errors"][:2] if rst == "err" else "")),
                   dict(kind="c07", what_kind="late-parse", schema=schema, meta=meta, origin=origin))
    # two revisions of one module / submodule side by side (implementation alone: the model has one module per name)
    rcases = revision_cases(rnd, 30 if tier == "quick" else 300) + target_revision_cases(rnd, 30 if tier == "quick" else 300)
    rlines, ridx = [], []
    for ci, (label, files, marks) in enumerate(rcases):
        n = len(files)
        orders = [list(range(n)), list(reversed(range(n)))]
        p_ = list(range(n))
        rnd.shuffle(p_)
        orders.append(p_)
        for o in orders:
            rlines.append(revision_line(files, o))
            ridx.append((ci, o))
    rout = lib.run_go(rlines)
    hist["revision_runs"] = len(rlines)
    hist["revision_defects"] = 0
    hist["revision_by_kind"] = {}
    seen_rev = set()
    for (ci, o), line in zip(ridx, rout):
        label, files, marks = rcases[ci]
        hist["revision_by_kind"][label] = hist["revision_by_kind"].get(label, 0) + 1
        bad = target_revision_defects(marks, line) if label == "target-revisions" else revision_defects(marks, line)
        if bad and ci not in seen_rev:
            seen_rev.add(ci)
            hist["revision_defects"] += 1
            report(None, "revisions:" + label, "%s: an augment of a loaded revision is neither applied nor reported (or a wrong one is): %s"
                   % (label, "; ".join(bad[:2])),
                   dict(kind="c07", what_kind="revisions", files=files, marks=marks, order=o, schema=[], meta={}, origin=label))
    nontrivial = sum(1 for s_, m_, o_ in items if sum(len(x["augments"]) for x in s_) >= 2)
    s0 = items[0][0]
    cov = dict(
        evaluations=len(go_lines) + len(auto_lines) + len(late_lines) + len(rlines) + len(ml_lines), distinct_nontrivial=nontrivial, schemas=len(items),
        rule="every schema in three variants (as written; augment statements permuted inside each module; augmenting modules "
             "renamed, which permutes Process's sorted visiting order), each loaded in %d orders on the implementation and run on "
             "the model at the implementation's visiting order, plus %d further order arguments on the model; compared: canonical "
             "forest text (children sorted) or err; non-trivial = at least two augments" % (NGO_ORDERS, NML_ORDERS - 1),
        exhaustive=False, mismatches=hist["tie_mismatch"], distribution=hist, violation_classes=reported,
        samples=[render_module(m)[:600] for m in s0[:3]],
        sample_observations=[per[0]["go"][0][2][:400], per[0]["ml"][0][2][:400]],
    )
    assumptions = [
        "Process visits modules in sorted key order (deterministic); other visiting orders are reached on the implementation by "
        "renaming the augmenting modules and on the model by the explicit order argument",
        "forest equivalence of the theorems ignores the order of children and the presence of an EMPTY rpc input/output; the "
        "correspondence compares input/output presence exactly",
        "augments that define no node are, for the model, augments with an empty body whatever their written form (no "
        "substatements, description / reference / status / when only, uses of groupings without nodes); when / if-feature / "
        "status / reference themselves are not modelled (they never decide whether an augment is applied or reported)",
        "deviations occur only as deviate not-supported of a conflicting augment's target or ancestor (family "
        "conflict-then-removed); their own semantics is C08; uses-augment and refine are not modelled",
    ]
    return cov, assumptions


def replay(rep, res):
    print("what:", rep.get("what"))
    if rep.get("what_kind") == "revisions":
        files = [tuple(f) for f in rep["files"]]
        marks = [tuple(m) for m in rep["marks"]]
        for f, t in files[2:]:
            print("----", f)
            print(t)
        line = lib.run_go([revision_line(files, rep["order"])])[0]
        bad = target_revision_defects(marks, line) if rep.get("origin") == "target-revisions" else revision_defects(marks, line)
        print("load order", [files[i][0] for i in rep["order"]], "->", bad or "every augment applied or reported")
        return 1 if bad else 0
    if rep.get("what_kind") == "wrong-reports":
        for m in rep["schema"]:
            if m["augments"]:
                print(render_module(m))
        st, txt, j = sg.canon_go(lib.run_go([go_case(rep["schema"], order=rep.get("order"))])[0])
        want = expected_reports(rep["schema"], set(rep["bad_paths"]))
        got = reported_positions(j) if j else set()
        print("reported:", sorted(got), (j or {}).get("runs", [{}])[-1].get("errors"))
        print("without target:", sorted(want))
        return 0 if st == "err" and want == got else 1
    outs = set()
    for label, schema in (("a", rep["schema"]), ("b", rep.get("schema_b"))):
        if not schema:
            continue
        print("---- modules (%s)" % label)
        for m in schema:
            print(render_module(m))
        names = [m["name"] for m in schema]
        for o in (names, list(reversed(names))):
            st, txt, j = sg.canon_go(lib.run_go([go_case(schema, order=o)])[0])
            outs.add(st)
            print("impl  (%s) load order %s: %s %s" % (label, o, st, (j or {}).get("runs", [{}])[-1].get("errors")))
            if st == "ok":
                print("      defects:", go_clean_defects(j))
        mouts = {}
        for o in [None] + [list(p) for p in itertools.islice(itertools.permutations(sorted(names)), 24)]:
            line = lib.run_ml([sg.model_case(schema, order=o)])[0]
            mouts.setdefault(line.split(" ")[0], []).append(o or "sorted")
        print("model (%s): %s" % (label, {k: v[:3] for k, v in mouts.items()}))
        outs |= set(mouts)
    kind = rep.get("what_kind")
    if kind == "late-parse":
        cwd = tempfile.mkdtemp(prefix="c07cwd")
        try:
            a = sg.canon_go(lib.run_go([go_case(rep["schema"])], cwd=cwd)[0])
            b = sg.canon_go(lib.run_go([late_parse_line(rep["schema"])], cwd=cwd)[0])
        finally:
            shutil.rmtree(cwd, ignore_errors=True)
        print("batch                        :", a[0], ((a[2] or {}).get("runs") or [{}])[-1].get("errors"))
        print("GetModule, Parse, GetModule  :", b[0], ((b[2] or {}).get("runs") or [{}])[-1].get("errors"))
        return 0 if summarize(a[0], a[1]) == summarize(b[0], b[1]) else 1
    if kind == "autoload":
        cwd = tempfile.mkdtemp(prefix="c07cwd")
        try:
            a = sg.canon_go(lib.run_go([go_case(rep["schema"])], cwd=cwd)[0])
            b = sg.canon_go(lib.run_go([go_case(rep["schema"], ops=rep["ops"])], cwd=cwd)[0])
        finally:
            shutil.rmtree(cwd, ignore_errors=True)
        print("explicit   :", a[0], ((a[2] or {}).get("runs") or [{}])[-1].get("errors"))
        print("auto-loaded:", b[0], ((b[2] or {}).get("runs") or [{}])[-1].get("errors"), "ops", rep["ops"])
        return 0 if summarize(a[0], a[1]) == summarize(b[0], b[1]) else 1
    if kind == "not-reported":
        return 0 if outs == {"err"} else 1
    if kind == "valid-rejected":
        return 0 if outs == {"ok"} else 1
    if kind == "clean-defect":
        st, txt, j = sg.canon_go(lib.run_go([go_case(rep["schema"], order=rep.get("order"))])[0])
        return 1 if st != "ok" or go_clean_defects(j) + applied_defects(rep["schema"], j) else 0
    if kind == "tie":
        st, txt, j = sg.canon_go(lib.run_go([go_case(rep["schema"], order=rep.get("order"))])[0])
        ml = lib.run_ml([sg.model_case(rep["schema"])])[0]
        return 0 if summarize(st, txt) == (ml if ml.startswith("ok ") else ml.split(" ")[0]) else 1
    return 1 if len(outs) > 1 else 0
