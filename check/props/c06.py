"""C06 -- every use of a grouping is an independent, faithful, locally scoped copy.

Grouping-heavy module sets ("towers": grouping k uses grouping k-1, depth <= 6) are generated together with the
generator's OWN knowledge of which definition every `uses` denotes (the target is chosen first, then a reference string
that names it from that point: enclosing definition, module level, included submodule, import prefix).  Per set:

  tie          extracted model (coq/Model/Schema.v, `resolve`) == implementation (`process`): status and canonical forest
  faithful     (metamorphic, implementation only)  the set rendered with `uses`  vs  the set with every uses replaced, in
               Python at generation time, by the data nodes of the grouping it denotes (recursively; references inside a
               grouping are the ones chosen at ITS definition point): identical status and identical canonical forests.
               The same pair is also run through the model (a test of theorem C06-T1's statement on the model).
  independent  (metamorphic, implementation only)  the set plus a module `mz` that uses an imported grouping ("later use")
               vs the same plus ONE augment or deviation aimed at ONE instance of a grouping (and, in a second form, two
               deviations at two instances of one grouping): outside the target position(s) the dumps are identical, every
               target subtree in the two-mutation run equals the one of the corresponding one-mutation run, `treeviol`
               (pointer-level walker: sharing, parent pointers) is empty.
  spec         the extracted reference expansion inline_schema (coq/Spec/C06.v; theorem C06_T1_process: Process of the inlined
               set = Process of the set) applied to every generated set equals, token for token, the generator's own
               inlining in the spec's form (nested grouping definitions copied along); the text handed to the
               implementation differs from it only by those unused definitions.
  negative     unknown / out-of-scope / cyclic references: model and implementation both report an error.
"""
import random
import shutil
import tempfile

import lib
from props import schema_gen as sg

MAXU64 = sg.MAXU64
# the extracted spec oracle is linked into the driver unless a VERIF_PARTS selection leaves it out
HAVE_SPEC = (not lib.PARTS) or ("c06" in lib.PARTS)


# ------------------------------------------------------------------ scope frames (the generator's own scoping knowledge)
class Frame:
    """one scope: the statement list of a module (top) or of a nested node"""

    def __init__(self, mod, body, parent, kind="module"):
        self.mod, self.body, self.parent, self.kind = mod, body, parent, kind
        self.groupings = {}     # name -> grouping tuple defined directly in this statement list

    def top(self):
        f = self
        while f.parent is not None:
            f = f.parent
        return f

    def child(self, body, kind="container"):
        return Frame(self.mod, body, self, kind)


class World:
    def __init__(self, rnd):
        self.rnd = rnd
        self.uid = 0
        self.gid = 0
        self.mods = []
        self.byname = {}
        self.topframe = {}      # module name -> Frame
        self.home = {}          # id(grouping tuple) -> Frame it is defined in
        self.level = {}         # id(grouping tuple) -> tower level
        self.groupings = []
        self.uses_log = []      # (frame, reference, target) of every uses written so far
        self.hooks = []         # directory nodes generated without children
        self.family = "tower"

    def stable(self):
        """every reference written so far still denotes the grouping it was written for"""
        return all(self.resolve(f, ref) is g for f, ref, g in self.uses_log)

    def name(self, stem):
        self.uid += 1
        return "%s%d" % (stem, self.uid)

    def add_module(self, name, prefix, belongs=None):
        m = dict(name=name, prefix=prefix, ns="" if belongs else "urn:" + name, belongs=belongs, imports=[], includes=[],
                 body=[], augments=[], deviations=[])
        self.mods.append(m)
        self.byname[name] = m
        self.topframe[name] = Frame(m, m["body"], None)
        return m

    # what FindGrouping does at module level, as the generator understands it: own statements, then imports whose
    # prefix the reference carries, then included submodules depth first, each submodule once
    def module_lookup(self, mod, name, seen):
        g = self.topframe[mod["name"]].groupings.get(name)
        if g is not None:
            return g
        for p, mn in mod["imports"]:
            if name.startswith(p + ":") and mn in self.byname:
                g = self.module_lookup(self.byname[mn], name[len(p) + 1:], seen)
                if g is not None:
                    return g
        for sn in mod["includes"]:
            if sn in seen or sn not in self.byname:
                continue
            seen.add(sn)
            g = self.module_lookup(self.byname[sn], name, seen)
            if g is not None:
                return g
        return None

    def resolve(self, frame, ref):
        name = ref
        pfx = frame.mod["prefix"] + ":"
        if name.startswith(pfx):
            name = name[len(pfx):]
        f = frame
        while f.parent is not None:
            if name in f.groupings:
                return f.groupings[name]
            f = f.parent
        return self.module_lookup(f.mod, name, set())

    def refs_to(self, frame, g):
        """reference strings that denote grouping g from a statement list whose scope is [frame]"""
        gname = g[2]
        cands = [gname, frame.mod["prefix"] + ":" + gname]
        for p, _ in frame.mod["imports"]:
            cands.append(p + ":" + gname)
        return [r for r in cands if self.resolve(frame, r) is g]

    def family_tops(self, mod):
        """top frames of the module family (owner and all its submodules) a (sub)module belongs to"""
        owner = mod["belongs"] or mod["name"]
        return [self.topframe[m["name"]] for m in self.mods if m["name"] == owner or m["belongs"] == owner]


# ------------------------------------------------------------------ bodies
def tri(r, p=0.3):
    x = r.random()
    return None if x > p else (x < p / 2)


def leaf(w, name=None):
    r = w.rnd
    return ("leaf", name or w.name("l"), r.choice(sg.BUILTINS), tri(r), tri(r, 0.1),
            r.choice([None, None, "d%d" % r.randint(0, 3)]), r.choice([None, None, "u1"]))


def leaflist(w):
    r = w.rnd
    return ("leaflist", w.name("ll"), r.choice(sg.BUILTINS), tri(r), ["v%d" % i for i in range(r.choice([0, 1, 2, 3]))],
            r.choice([None, 0, 1, 2]), r.choice([None, 5, 10, MAXU64]))


def empty_dir(w, act=True, kind=None):
    """a directory node with NO children: its child map exists and is empty"""
    r = w.rnd
    kinds = ["container", "container", "list", "choice", "choicecase"] + (["actin", "actout"] if act else [])
    k = kind or r.choice(kinds)
    if k == "container":
        n = ("container", w.name("hk"), tri(r), [])
    elif k == "list":
        n = ("list", w.name("hl"), None, tri(r), r.choice([None, 1]), r.choice([None, 6]), [])
    elif k == "choice":
        n = ("choice", w.name("hch"), None, None, None, [])
    elif k == "choicecase":
        n = ("choice", w.name("hch"), None, None, None, [("case", w.name("hcs"), [])])
    elif k == "actin":
        n = ("rpc", True, w.name("hact"), [], None)
    elif k == "actout":
        n = ("rpc", True, w.name("hact"), None, [])
    else:
        raise ValueError(k)
    w.hooks.append(n)
    return n


def plain_nodes(w, depth, n=None, act=True):
    """data nodes without uses: lists with min/max-elements, actions with input/output, choices (with shorthand cases)"""
    r = w.rnd
    out = []
    for _ in range(n if n is not None else r.randint(1, 3)):
        x = r.random()
        if depth > 0 and r.random() < 0.12:
            out.append(empty_dir(w, act))        # a directory node without children (an augmentation hook)
        elif depth <= 0 or x < 0.3:
            out.append(leaf(w))
        elif x < 0.42:
            out.append(leaflist(w))
        elif x < 0.58:
            b = [leaf(w)] + plain_nodes(w, depth - 1, r.randint(0, 2))
            out.append(("list", w.name("li"), b[0][1], tri(r), r.choice([None, 0, 1, 3]), r.choice([None, 4, 7, MAXU64]), b))
        elif x < 0.70:
            out.append(("container", w.name("c"), tri(r), plain_nodes(w, depth - 1)))
        elif x < 0.84:
            cb = []
            for _ in range(r.randint(1, 3)):
                if r.random() < 0.5:
                    cb.append(("case", w.name("cs"), plain_nodes(w, depth - 1, r.randint(1, 2), act=False)))
                else:
                    cb.append(r.choice([leaf(w), ("container", w.name("c"), tri(r), plain_nodes(w, depth - 1, 1))]))
            out.append(("choice", w.name("ch"), tri(r), tri(r, 0.1), None, cb))
        elif x < 0.94 and act:
            inp = plain_nodes(w, depth - 1, r.randint(1, 2), act=False) if r.random() < 0.7 else None
            outp = plain_nodes(w, depth - 1, r.randint(1, 2), act=False) if r.random() < 0.6 else None
            out.append(("rpc", True, w.name("act"), inp, outp))
        else:
            out.append(("any", r.random() < 0.5, w.name("any"), tri(r), tri(r, 0.1)))
    return out


def top_actions(g, seen=()):
    """does the expansion of grouping g put an action directly into the using node?"""
    for n in g[3]:
        if n[0] == "rpc":
            return True
        if n[0] == "uses" and id(n[2]) not in seen and top_actions(n[2], seen + (id(g),)):
            return True
    return False


def uses(ref, g):
    return ("uses", ref, g)     # render/encode only look at [0] and [1]; [2] is the generator's knowledge


ACTION_OK = ("container", "list", "grouping")        # statement lists that may hold an action (module: rpc instead)


def wrap_use(w, frame, g, kinds):
    """a fresh node holding `uses g` (reference chosen among the strings that denote g from there), or None.
    Only places where the inlined text is syntactically acceptable to the parser are chosen."""
    r = w.rnd
    kinds = list(kinds)
    if frame.kind not in ACTION_OK + ("module",):
        kinds = [k for k in kinds if k not in ("rpcin", "rpcout")]
    if frame.kind != "module":
        kinds = [k for k in kinds if k != "notification"]
    if top_actions(g):
        kinds = [k for k in kinds if k in ("container", "list")]
    if not kinds:
        return None
    kind = r.choice(kinds)
    inner = []
    holder = []
    if kind == "choicecase":
        f = frame.child(holder, "choice").child(inner, "case")
    else:
        f = frame.child(inner, {"rpcin": "input", "rpcout": "input"}.get(kind, kind))
    refs = w.refs_to(f, g)
    if not refs:
        return None
    if r.random() < 0.5:
        inner.append(leaf(w))
    ref = r.choice(refs)
    inner.append(uses(ref, g))
    w.uses_log.append((f, ref, g))
    if r.random() < 0.3:
        inner.append(leaf(w))
    if kind == "container":
        return ("container", w.name("u"), tri(r), inner)
    if kind == "list":
        return ("list", w.name("ul"), None, tri(r), r.choice([None, 1]), r.choice([None, 9]), inner)
    if kind == "choicecase":
        holder.append(("case", w.name("ucs"), inner))
        return ("choice", w.name("uch"), None, None, None, holder)
    if kind == "rpcin":
        return ("rpc", frame.kind != "module", w.name("uact"), inner, None)
    if kind == "rpcout":
        return ("rpc", frame.kind != "module", w.name("uact"), None, inner)
    if kind == "notification":
        return ("notification", w.name("unt"), inner)
    raise ValueError(kind)


# ------------------------------------------------------------------ the generator
def gen_world(rnd, depth=None):
    w = World(rnd)
    r = rnd
    m0 = w.add_module("m0", "p0")
    has_imp = r.random() < 0.75
    if has_imp:
        m1 = w.add_module("m1", "p1")
        m0["imports"].append((r.choice(["x1", "p1", "q"]), "m1"))
        if r.random() < 0.5:
            s = w.add_module("m1s1", "p1", "m1")
            m1["includes"].append("m1s1")
    # a third module whose groupings get the same names; the submodules of m0 may bind the very prefix under which m0
    # imports m1 to m2 instead (prefix clash between a module and its submodules), may name their module by a
    # belongs-to prefix of their own ("s0") and may then re-use m0's own prefix "p0" for their import of m2
    m2 = w.add_module("m2", "p2") if r.random() < 0.6 else None
    if m2 is not None and r.random() < 0.3:
        m0["imports"].append(("y2", "m2"))

    def sub_imports(belongs_prefix):
        if m2 is None or r.random() < 0.4:
            return list(m0["imports"])
        if belongs_prefix != "p0" and r.random() < 0.6:
            return [("p0", "m2")] + [(p, mn) for p, mn in m0["imports"] if mn != "m2" and r.random() < 0.5]
        clash = [(p, "m2") for p, mn in m0["imports"] if mn == "m1"] or [("x1", "m2")]
        return clash
    if r.random() < 0.7:
        bp = "p0" if r.random() < 0.6 else "s0"
        s1 = w.add_module("m0s1", bp, "m0")
        s1["imports"] = sub_imports(bp)
        m0["includes"].append("m0s1")
        if r.random() < 0.5:
            bp2 = "p0" if r.random() < 0.6 else "s0"
            s2 = w.add_module("m0s2", bp2, "m0")
            s2["imports"] = sub_imports(bp2)
            (s1 if r.random() < 0.6 else m0)["includes"].append("m0s2")
    # nested scopes: a chain of containers in m0 (and sometimes in another module) that may host groupings
    frames = [w.topframe[m["name"]] for m in w.mods]
    nested = []
    for m in [m0] + ([r.choice(w.mods)] if r.random() < 0.4 else []):
        f = w.topframe[m["name"]]
        for _ in range(r.randint(1, 3)):
            body = []
            kind = r.choice(["container", "container", "list", "input"]) if f.kind in ACTION_OK + ("module",) else "container"
            if kind == "container":
                f.body.append(("container", w.name("sc"), tri(r), body))
            elif kind == "list":
                f.body.append(("list", w.name("sl"), None, tri(r), None, None, body))
            else:
                f.body.append(("rpc", f.kind != "module", w.name("sr"), body, None))
            f = f.child(body, kind)
            nested.append(f)
    homes = frames + nested + nested
    # the tower
    D = depth if depth is not None else r.randint(1, 6)
    pool = ["g", "h", "k"]
    doubled = 0
    for lvl in range(D + 1):
        for _ in range(1 if lvl > 0 and r.random() < 0.7 else 2):
            for _try in range(8):
                home = r.choice(homes)
                nm = r.choice(pool) if r.random() < 0.6 else w.name("g")
                if nm in home.groupings:
                    continue
                home.groupings[nm] = None
                ok = w.stable()
                del home.groupings[nm]
                if not ok:
                    continue        # the new definition would capture a reference written earlier
                if home.parent is None:
                    # a top-level name is defined in at most one submodule of a family (plus possibly the owner)
                    others = [f for f in w.family_tops(home.mod) if f is not home and f.mod["belongs"] and nm in f.groupings]
                    if home.mod["belongs"] and others:
                        continue
                break
            else:
                continue
            w.gid += 1
            body = []
            g = ("grouping", w.gid, nm, body)
            log_mark = len(w.uses_log)
            # the body is built before g is visible; the definition is dropped again below if it captures a reference
            gf = home.child(body, "grouping")
            body += plain_nodes(w, 2)
            lower = [x for x in w.groupings if w.level[id(x)] < lvl]
            prev = [x for x in lower if w.level[id(x)] == lvl - 1]
            want = []
            if prev:
                want.append(r.choice(prev))
                if r.random() < 0.35 and doubled < 2:
                    want.append(r.choice(prev))
                    doubled += 1
            if lower and r.random() < 0.3:
                want.append(r.choice(lower))
            direct = set()
            for t in want:
                if id(t) not in direct and r.random() < 0.5:
                    refs = w.refs_to(gf, t)
                    if refs:
                        ref = r.choice(refs)
                        body.insert(r.randint(0, len(body)), uses(ref, t))
                        w.uses_log.append((gf, ref, t))
                        direct.add(id(t))
                        continue
                n = wrap_use(w, gf, t, ["container", "container", "list", "choicecase", "rpcin", "rpcout"])
                if n is not None:
                    body.insert(r.randint(0, len(body)), n)
            if r.random() < 0.25:
                # a grouping nested in the grouping, used inside it (defining scope = the grouping's own statements)
                w.gid += 1
                ib = plain_nodes(w, 1)
                ig = ("grouping", w.gid, r.choice(pool + [w.name("ng")]), ib)
                gf.groupings.setdefault(ig[2], None)
                if gf.groupings[ig[2]] is None and w.stable():
                    body.append(ig)
                    gf.groupings[ig[2]] = ig
                    w.uses_log.append((gf.child([], "container"), ig[2], ig))
                    w.home[id(ig)] = gf
                    w.level[id(ig)] = 0
                    body.append(("container", w.name("u"), None, [uses(ig[2], ig)]))
                elif gf.groupings[ig[2]] is None:
                    del gf.groupings[ig[2]]
            home.groupings[nm] = g
            if not w.stable():
                del home.groupings[nm]
                del w.uses_log[log_mark:]
                continue
            home.body.append(g)
            w.home[id(g)] = home
            w.level[id(g)] = lvl
            w.groupings.append(g)
    # every grouping is used at least twice from data positions
    places = frames + nested
    for g in w.groupings:
        n_use = 0
        for _try in range(12):
            if n_use >= 2 + (r.random() < 0.3):
                break
            f = r.choice(places)
            kinds = ["container", "container", "list", "choicecase"]
            kinds += ["notification", "rpcin", "rpcout"]
            n = wrap_use(w, f, g, kinds)
            if n is None:
                continue
            f.body.append(n)
            n_use += 1
    # uses written directly at the top level of a module or submodule (the copies become top-level nodes; those of a
    # submodule are merged into its module by the include): at most one chain of directly expanded groupings per module
    # family, so that no two expansions put the same names side by side
    def direct_closure(g, acc):
        if id(g) in acc:
            return acc
        acc.add(id(g))
        for n in g[3]:
            if n[0] == "uses":
                direct_closure(n[2], acc)
        return acc
    taken = {}
    for f in frames:
        fam = f.mod["belongs"] or f.mod["name"]
        if r.random() < 0.45 and w.groupings:
            g = r.choice(w.groupings)
            cl = direct_closure(g, set())
            if top_actions(g) or (cl & taken.setdefault(fam, set())):
                continue
            refs = w.refs_to(f, g)
            if not refs:
                continue
            ref = r.choice(refs)
            f.body.append(uses(ref, g))
            w.uses_log.append((f, ref, g))
            taken[fam] |= cl
            w.direct_top = getattr(w, "direct_top", 0) + 1
    # plain data and augments holding uses
    for m in w.mods:
        m["body"] += plain_nodes(w, 2, r.randint(0, 2) if m["belongs"] else r.randint(1, 2), act=False)
    tgt = ("container", w.name("tgt"), None, [leaf(w)])
    m0["body"].append(tgt)
    for m in w.mods:
        if r.random() < 0.5 and w.groupings:
            pfx = None
            if (m["belongs"] or m["name"]) == "m0":
                pfx = m["prefix"]
            if pfx is None:
                continue
            g = r.choice(w.groupings)
            ab = []
            af = w.topframe[m["name"]].child(ab, "container")
            n = wrap_use(w, af, g, ["container", "list"])
            if n is not None:
                ab.append(n)
                m["augments"].append(("/%s:%s" % (pfx, tgt[1]), ab))
    # a part of m0 that imports m2 augments m2's tree under that prefix (in a submodule possibly m0's own prefix)
    if "m2" in w.byname:
        tgt2 = ("container", w.name("tgt"), None, [leaf(w)])
        w.byname["m2"]["body"].append(tgt2)
        for m in w.mods:
            if (m["belongs"] or m["name"]) == "m0":
                for p, mn in m["imports"]:
                    if mn == "m2" and r.random() < 0.7:
                        m["augments"].append(("/%s:%s" % (p, tgt2[1]), [leaf(w)]))
                        break
    if r.random() < 0.6:
        add_cross_augments(w)
    return w



def add_cross_augments(w):
    """a module mx that imports every module augments nodes anywhere in the trees with bodies that say `uses` DIRECTLY
    (the copies themselves become the merged children), preferring groupings defined in the module that wrote the
    target node (for a target that is itself a copy: the module defining that grouping; else the target tree's module):
    the copies belong to mx's namespace like everything an augment of mx adds, whoever defines the grouping"""
    r = w.rnd
    tops = [m for m in w.mods if not m["belongs"]]
    mx = w.add_module("mx", "px")
    mx["imports"] = [("i" + m["name"], m["name"]) for m in tops]
    mx["body"].append(leaf(w))
    insts = [x for x in instance_paths(w)
             if x[2] in ("container", "list") and not any(c[0] == "uses" for c in x[4][-1])]
    if not insts or not w.groupings:
        return
    used = set()
    n_done = 0
    for _try in range(12):
        if n_done >= 3:
            break
        owner, steps, kind, origin, node = r.choice(insts)
        writer = w.home[id(origin)].mod if origin is not None else None      # module that wrote the target node
        cands = []
        for g in w.groupings:
            h = w.home[id(g)]
            if h.parent is not None:
                continue
            gm = h.mod
            if writer is not None:
                pref = gm is writer or (gm["belongs"] or gm["name"]) == (writer["belongs"] or writer["name"])
            else:
                pref = (gm["belongs"] or gm["name"]) == owner
            cands += [g] * (6 if pref else 1)
        if not cands:
            return
        g = r.choice(cands)
        key = (owner, tuple(steps))
        if key in used or (origin is not None and g is origin):
            continue
        ab = []
        af = w.topframe["mx"].child(ab, "container")
        refs = w.refs_to(af, g)
        if not refs:
            continue
        ref = r.choice(refs)
        ab.append(uses(ref, g))
        if r.random() < 0.4:
            ab.append(leaf(w))
        w.uses_log.append((af, ref, g))
        mx["augments"].append(("/" + "/".join("i%s:%s" % (owner, st) for st in steps), ab))
        used.add(key)
        n_done += 1
    w.cross_augments = n_done


def gen_hook_world(rnd):
    """family "empty hooks": groupings holding directory nodes of every kind WITHOUT children at depth 1..3, two or three
    uses of each (same module, submodule, other module); the independence experiments then augment one instance, or two
    instances with equally named children"""
    w = World(rnd)
    w.family = "hooks"
    r = rnd
    m0 = w.add_module("m0", "p0")
    m1 = w.add_module("m1", "p1")
    m1["imports"].append((r.choice(["x0", "p0"]), "m0"))
    mods = [m0, m1]
    if r.random() < 0.5:
        s1 = w.add_module("m0s1", "p0", "m0")
        m0["includes"].append("m0s1")
        mods.append(s1)
    top0 = w.topframe["m0"]
    for _ in range(r.randint(1, 2)):
        body = []
        kinds = ["container", "list", "choice", "choicecase", "actin", "actout"]
        r.shuffle(kinds)
        for k in kinds[:r.randint(2, 6)]:
            h = empty_dir(w, True, k)
            for _d in range(r.randint(0, 2)):          # depth 1..3
                h = r.choice([("container", w.name("c"), tri(r), [h] + ([leaf(w)] if r.random() < 0.5 else [])),
                              ("list", w.name("li"), None, None, None, None, [h])])
            body.append(h)
        if r.random() < 0.5:
            body.append(leaf(w))
        w.gid += 1
        g = ("grouping", w.gid, w.name("g"), body)
        if w.groupings and r.random() < 0.5:
            # a grouping that passes the hooks of an earlier one on
            t = r.choice(w.groupings)
            ref = r.choice(w.refs_to(top0.child(body, "grouping"), t))
            body.append(("container", w.name("u"), None, [uses(ref, t)]))
        top0.body.append(g)
        top0.groupings[g[2]] = g
        w.home[id(g)] = top0
        w.level[id(g)] = len(w.groupings)
        w.groupings.append(g)
    for g in w.groupings:
        places = [w.topframe[m["name"]] for m in mods]
        r.shuffle(places)
        n_use = 0
        for f in (places + places)[:r.randint(2, 3) + 1]:
            n = wrap_use(w, f, g, ["container", "container", "list"])
            if n is not None:
                f.body.append(n)
                n_use += 1
    for m in mods:
        if not m["body"]:
            m["body"].append(leaf(w))
    if r.random() < 0.6:
        add_cross_augments(w)
    return w


# ------------------------------------------------------------------ the generator's own inlining
def inline_body(body, drop_groupings=False, spec=False):
    """spec=True: exactly what coq/Spec/C06.v inline_body does -- ALL statements of the grouping are copied, its nested
    grouping definitions included (nothing refers to them any more); default: only the data nodes are copied (the form
    the YANG parser accepts everywhere)"""
    out = []
    for n in body:
        k = n[0]
        if k == "uses":
            out += [x for x in inline_body(n[2][3], spec=spec) if spec or x[0] != "grouping"]
        elif k == "grouping":
            if not drop_groupings:
                out.append(("grouping", n[1], n[2], inline_body(n[3], spec=spec)))
        elif k in ("container", "list", "choice", "case", "notification"):
            out.append(n[:-1] + (inline_body(n[-1], spec=spec),))
        elif k == "rpc":
            out.append(n[:3] + (None if n[3] is None else inline_body(n[3], spec=spec),
                                None if n[4] is None else inline_body(n[4], spec=spec)))
        else:
            out.append(n)
    return out


def inline_schema(mods, spec=False):
    out = []
    for m in mods:
        m2 = dict(m)
        m2["body"] = inline_body(m["body"], spec=spec)
        m2["augments"] = [(p, inline_body(b, spec=spec)) for p, b in m["augments"]]
        out.append(m2)
    return out


def plain(mods):
    """strip the generator's knowledge: plain schema_gen tuples (deep copy)"""
    def nb(body):
        out = []
        for n in body:
            k = n[0]
            if k == "uses":
                out.append(("uses", n[1]))
            elif k in ("container", "list", "choice", "case", "notification", "grouping"):
                out.append(n[:-1] + (nb(n[-1]),))
            elif k == "rpc":
                out.append(n[:3] + (None if n[3] is None else nb(n[3]), None if n[4] is None else nb(n[4])))
            else:
                out.append(n)
        return out
    res = []
    for m in mods:
        m2 = dict(m)
        m2["body"] = nb(m["body"])
        m2["augments"] = [(p, nb(b)) for p, b in m["augments"]]
        m2["imports"] = list(m["imports"])
        m2["includes"] = list(m["includes"])
        m2["deviations"] = list(m["deviations"])
        res.append(m2)
    return res


def count_nodes(body):
    n = 0
    for x in body:
        n += 1
        if x[0] in ("container", "list", "choice", "case", "notification", "grouping"):
            n += count_nodes(x[-1])
        elif x[0] == "rpc":
            n += count_nodes(x[3] or []) + count_nodes(x[4] or [])
    return n


# ------------------------------------------------------------------ instances: positions of the copies in the result
def instance_paths(w):
    """(owner module name, steps, kind, origin grouping or None) for every data node of every module tree after expansion;
    origin = the innermost grouping definition whose text the node comes from.  Steps follow the final tree: the implicit
    case of a shorthand choice member is a step of its own."""
    out = []

    def walk(body, steps, origin, owner, in_choice):
        for n in body:
            k = n[0]
            if k == "uses":
                walk(n[2][3], steps, n[2], owner, in_choice)
                continue
            if k == "grouping":
                continue
            nm = n[2] if k in ("any", "rpc") else n[1]
            st = steps + ([nm, nm] if in_choice and k != "case" else [nm])
            out.append((owner, st, k, origin, n))
            if k in ("container", "list", "case", "notification"):
                walk(n[-1], st, origin, owner, False)
            elif k == "choice":
                walk(n[-1], st, origin, owner, True)
            elif k == "rpc":
                for io, b in (("input", n[3]), ("output", n[4])):
                    if b is not None:
                        out.append((owner, st + [io], io, origin, n))
                        walk(b, st + [io], origin, owner, False)
    for m in w.mods:
        walk(m["body"], [], None, m["belongs"] or m["name"], False)
    return out


def expected_prefixes(w):
    """(tree module, steps) -> the prefix Entry.Prefix has to show: the one of the module (for a submodule: its belongs-to
    prefix) in whose TEXT the node is written -- for a copy that is the module defining the grouping, the scope in which
    the grouping's types and identities resolve -- whatever module uses it and whatever include merges it"""
    out = {}

    def walk(body, steps, pfx, owner, in_choice):
        for n in body:
            k = n[0]
            if k == "uses":
                walk(n[2][3], steps, w.home[id(n[2])].mod["prefix"], owner, in_choice)
                continue
            if k == "grouping":
                continue
            nm = n[2] if k in ("any", "rpc") else n[1]
            st = steps + ([nm, nm] if in_choice and k != "case" else [nm])
            out[(owner, tuple(st))] = pfx
            if k in ("container", "list", "case", "notification"):
                walk(n[-1], st, pfx, owner, False)
            elif k == "choice":
                walk(n[-1], st, pfx, owner, True)
            elif k == "rpc":
                for io, b in (("input", n[3]), ("output", n[4])):
                    if b is not None:
                        out[(owner, tuple(st + [io]))] = pfx
                        walk(b, st + [io], pfx, owner, False)
    for m in w.mods:
        walk(m["body"], [], m["prefix"], m["belongs"] or m["name"], False)
    tops = {}
    for m in w.mods:
        for n in m["body"]:
            if n[0] == "container":
                tops[n[1]] = m["belongs"] or m["name"]
    for m in w.mods:
        for apath, body in m["augments"]:
            steps = [x.split(":")[-1] for x in apath.strip("/").split("/")]
            if steps[0] in tops:
                walk(body, steps, m["prefix"], tops[steps[0]], False)
    return out


def mz_module(w, later_use, augments, deviations):
    """a module that imports every module of the set, holds one more use of an imported grouping and the mutations"""
    m = dict(name="mz", prefix="pz", ns="urn:mz", belongs=None,
             imports=[("i" + x["name"], x["name"]) for x in w.mods if not x["belongs"]], includes=[], body=[], augments=augments,
             deviations=deviations)
    if later_use is not None:
        m["body"].append(("container", "zz", None, [("uses", later_use)]))
    m["body"].append(("leaf", "zleaf", "string", None, None, None, None))
    return m


def pick_later_use(w):
    c = []
    for g in w.groupings:
        h = w.home[id(g)]
        if h.parent is None and not h.mod["belongs"]:
            c.append("i%s:%s" % (h.mod["name"], g[2]))
    return w.rnd.choice(c) if c else None


def mutation_for(w, inst, tag, same_name=False):
    """(augments, deviations, mode) aimed at one instance; mode says how the target position is projected away"""
    r = w.rnd
    owner, steps, kind, origin, node = inst
    path = "/" + "/".join("i%s:%s" % (owner, s) for s in steps)
    opts = []
    if kind in ("list", "leaflist"):
        opts += ["min", "max"]
    if kind == "leaflist":
        opts += ["adddefault"]
    if kind == "leaf":
        opts += ["default"]
    if kind in ("leaf", "leaflist"):
        opts += ["type", "type", "units"]
    if kind in ("leaf", "leaflist", "container", "list", "any"):
        opts += ["config", "notsupported"]
    if kind in ("container", "list", "case", "input", "output", "notification"):
        opts += ["augment", "augment"]
    if kind == "choice":
        opts += ["augmentcase"]
    if not opts:
        return None
    o = r.choice(opts)
    if same_name or (id(node) in {id(h) for h in w.hooks} and r.random() < 0.8):
        # an empty hook is there to be augmented
        o = "augmentcase" if kind == "choice" else ("augment" if "augment" in opts else o)
    if same_name:
        tag = ""
    if o == "augment":
        return ([(path, [("leaf", "zaug" + tag, "string", None, None, None, None)])], [], ("added", steps, "zaug" + tag))
    if o == "augmentcase":
        return ([(path, [("case", "zaug" + tag, [("leaf", "zl" + tag, "string", None, None, None, None)])])], [],
                ("added", steps, "zaug" + tag))
    if o == "notsupported":
        return ([], [(path, [dict(kind="not-supported")])], ("cut", steps))
    d = dict(kind="replace")
    if o == "min":
        d["min"] = r.choice([3, 6])
    elif o == "max":
        d["max"] = r.choice([2, 11])
    elif o == "default":
        d["default"] = "zd" + tag
    elif o == "adddefault":
        d = dict(kind="add", default="zd" + tag)
    elif o == "config":
        d["cfg"] = False
    elif o == "type":
        d["type"] = r.choice([t for t in sg.BUILTINS if t != node[2]])      # another builtin than the one written
    elif o == "units":
        d = dict(kind="add", units="zu" + tag)
    return ([], [(path, [d])], ("cut", steps))


# ------------------------------------------------------------------ dumps with positions projected away
def tree_of(j, name):
    for m in j["runs"][-1]["modules"]:
        if m["name"] == name and not m["sub"]:
            return m["tree"]
    return None


def get_at(node, steps):
    for s in steps:
        nxt = None
        if node.get("hasrpc") and s in ("input", "output"):
            nxt = node.get(s)
        else:
            for c in node.get("children") or []:
                if c["name"] == s:
                    nxt = c
        if nxt is None:
            return None
        node = nxt
    return node


def drop_at(node, steps, undo):
    """remove the node at steps in place; [undo] collects what is needed to put it back"""
    par = get_at(node, steps[:-1])
    if par is None:
        return
    s = steps[-1]
    if par.get("hasrpc") and s in ("input", "output"):
        if s in par:
            undo.append((par, s, par.pop(s)))
    else:
        old = par.get("children") or []
        new = [c for c in old if c["name"] != s]
        if len(new) != len(old):
            undo.append((par, "children", old))
            par["children"] = new


def canon_forest(j, cuts, skip=("mz",)):
    """canonical text of all module trees with the listed (module, steps) positions removed"""
    run = j["runs"][-1]
    mods = sorted([m for m in run["modules"] if not m["sub"] and m["name"] not in skip], key=lambda m: m["name"].encode())
    out = []
    for m in mods:
        undo = []
        for mn, steps in cuts:
            if mn == m["name"]:
                drop_at(m["tree"], steps, undo)
        out.append(sg.canon_go_node(m["tree"]))
        for par, key, val in reversed(undo):
            par[key] = val
    return " ".join(out)


def canon_sub(j, mn, steps):
    t = tree_of(j, mn)
    n = get_at(t, steps) if t is not None else None
    return None if n is None else sg.canon_go_node(n)


def walk_flags(n, bad, path=""):
    if n.get("nerr"):
        bad.append("nerr at %s/%s" % (path, n["name"]))
    if n.get("naugments"):
        bad.append("naugments at %s/%s" % (path, n["name"]))
    for c in n.get("children") or []:
        walk_flags(c, bad, path + "/" + n["name"])
    for io in ("input", "output"):
        if n.get(io):
            walk_flags(n[io], bad, path + "/" + n["name"])


# ------------------------------------------------------------------ negative cases
def negative_cases(rnd):
    """(label, schema) with an unknown, out-of-scope or cyclic grouping reference"""
    L = lambda n: ("leaf", n, "string", None, None, None, None)
    out = []

    def mod(name, prefix, body, imports=(), includes=(), belongs=None):
        return dict(name=name, prefix=prefix, ns="" if belongs else "urn:" + name, belongs=belongs, imports=list(imports),
                    includes=list(includes), body=body, augments=[], deviations=[])
    G = lambda gid, n, b: ("grouping", gid, n, b)
    C = lambda n, b: ("container", n, None, b)
    U = lambda r: ("uses", r)
    out.append(("unknown", [mod("m0", "p0", [C("a", [U("nope")])])]))
    out.append(("self", [mod("m0", "p0", [G(1, "g", [L("x"), U("g")]), C("a", [U("g")])])]))
    out.append(("self-unused", [mod("m0", "p0", [G(1, "g", [L("x"), U("g")]), L("y")])]))
    out.append(("cycle2", [mod("m0", "p0", [G(1, "g", [L("x"), U("h")]), G(2, "h", [C("c", [U("g")])]), C("a", [U("g")])])]))
    out.append(("cycle3-modules", [
        mod("m0", "p0", [G(1, "g", [U("x:h")]), C("a", [U("g")])], imports=[("x", "m1")]),
        mod("m1", "p1", [G(2, "h", [C("c", [U("y:g")])])], imports=[("y", "m0")])]))
    out.append(("cycle-nested", [mod("m0", "p0", [C("a", [G(1, "g", [C("b", [G(2, "h", [U("g")]), U("h")])]), U("g")])])]))
    out.append(("sibling-scope", [mod("m0", "p0", [C("a", [G(1, "g", [L("x")])]), C("b", [U("g")])])]))
    out.append(("inner-from-outer", [mod("m0", "p0", [C("a", [C("b", [G(1, "g", [L("x")])]), U("g")])])]))
    out.append(("owner-from-submodule", [
        mod("m0", "p0", [G(1, "g", [L("x")]), L("y")], includes=["m0s1"]),
        mod("m0s1", "p0", [C("a", [U("g")])], belongs="m0")]))
    out.append(("wrong-prefix", [
        mod("m0", "p0", [G(1, "g", [L("x")]), C("a", [U("x:g")])], imports=[("x", "m1")]),
        mod("m1", "p1", [L("y")])]))
    out.append(("import-not-transitive", [
        mod("m0", "p0", [C("a", [U("x:g")])], imports=[("x", "m1")]),
        mod("m1", "p1", [L("y")], imports=[("z", "m2")]),
        mod("m2", "p2", [G(1, "g", [L("x")])])]))
    out.append(("users-scope-not-seen-by-grouping", [
        # h is visible where g is used, but not where g is defined
        mod("m0", "p0", [C("a", [G(2, "h", [L("x")]), U("x:g")])], imports=[("x", "m1")]),
        mod("m1", "p1", [G(1, "g", [U("h")])])]))
    out.append(("dup-two-uses-one-parent", [mod("m0", "p0", [G(1, "g", [L("x")]), C("a", [U("g"), U("p0:g")])])]))
    out.append(("dup-uses-vs-sibling", [mod("m0", "p0", [G(1, "g", [L("x")]), C("a", [L("x"), U("g")])])]))
    return out


def positive_fixed():
    """hand-written positive scoping cases with the expected leaf name under /a (checked on both sides)"""
    L = lambda n: ("leaf", n, "string", None, None, None, None)

    def mod(name, prefix, body, imports=(), includes=(), belongs=None):
        return dict(name=name, prefix=prefix, ns="" if belongs else "urn:" + name, belongs=belongs, imports=list(imports),
                    includes=list(includes), body=body, augments=[], deviations=[])
    G = lambda gid, n, b: ("grouping", gid, n, b)
    C = lambda n, b: ("container", n, None, b)
    U = lambda r: ("uses", r)
    out = []
    out.append(("innermost-wins", "inner", [mod("m0", "p0", [G(1, "g", [L("outer")]), C("a", [G(2, "g", [L("inner")]), U("g")])])]))
    out.append(("innermost-wins-prefixed", "inner",
                [mod("m0", "p0", [G(1, "g", [L("outer")]), C("a", [G(2, "g", [L("inner")]), U("p0:g")])])]))
    out.append(("outer-when-not-inside", "outer",
                [mod("m0", "p0", [G(1, "g", [L("outer")]), C("b", [G(2, "g", [L("inner")])]), C("a", [U("g")])])]))
    out.append(("own-before-include", "own", [
        mod("m0", "p0", [G(1, "g", [L("own")]), C("a", [U("g")])], includes=["m0s1"]),
        mod("m0s1", "p0", [G(2, "g", [L("sub")])], belongs="m0")]))
    out.append(("include-transitive", "sub2", [
        mod("m0", "p0", [C("a", [U("g")])], includes=["m0s1"]),
        mod("m0s1", "p0", [L("q")], includes=["m0s2"], belongs="m0"),
        mod("m0s2", "p0", [G(2, "g", [L("sub2")])], belongs="m0")]))
    out.append(("import-exactly-that-module", "theirs", [
        mod("m0", "p0", [G(1, "g", [L("own")]), C("a", [U("x:g")])], imports=[("x", "m1"), ("y", "m2")]),
        mod("m1", "p1", [G(2, "g", [L("theirs")])]),
        mod("m2", "p2", [G(3, "g", [L("other")])])]))
    out.append(("import-via-its-include", "theirsub", [
        mod("m0", "p0", [C("a", [U("x:g")])], imports=[("x", "m1")]),
        mod("m1", "p1", [L("q")], includes=["m1s1"]),
        mod("m1s1", "p1", [G(2, "g", [L("theirsub")])], belongs="m1")]))
    out.append(("nested-ref-in-defining-scope", "theirh", [
        # g (in m1) uses h: m1's h, not the h visible at the point of use
        mod("m0", "p0", [G(1, "h", [L("myh")]), C("a", [G(4, "h", [L("localh")]), U("x:g")])], imports=[("x", "m1")]),
        mod("m1", "p1", [G(2, "g", [U("h")]), G(3, "h", [L("theirh")])])]))
    out.append(("nested-ref-in-defining-scope-local", "defh", [
        mod("m0", "p0", [C("d", [G(3, "h", [L("defh")]), G(2, "g", [U("h")]), C("e", [L("w")])]),
                         G(5, "h", [L("tophh")]),
                         G(6, "k", [C("d2", [G(7, "h", [L("defh")]), G(8, "g2", [U("h")])])]),
                         C("a", [G(4, "h", [L("localh")]), C("zz", [L("q")])]),
                         ])]))
    return out


def regression_cases():
    """(label, schema, expected defaults of /A/ll, of /B/ll): witnesses of repaired defects, kept as plain cases"""
    def mod(body, devs):
        return dict(name="m0", prefix="p0", ns="urn:m0", belongs=None, imports=[], includes=[], body=body, augments=[],
                    deviations=devs)
    out = []
    for nd in (1, 2, 3, 4, 5, 7):
        G = ("grouping", 1, "g", [("leaflist", "ll", "string", None, ["d%d" % i for i in range(nd)], None, None)])
        body = [G, ("container", "A", None, [("uses", "g")]), ("container", "B", None, [("uses", "g")])]
        devs = [("/p0:A/p0:ll", [dict(kind="add", default="x")]), ("/p0:B/p0:ll", [dict(kind="add", default="y")])]
        base = ["d%d" % i for i in range(nd)]
        out.append(("leaf-list-defaults-%d" % nd, [mod(body, devs)], base + ["x"], base + ["y"]))
    return out



# ------------------------------------------------------------------ family "constraints" (implementation only)
# if-feature / must / when / status / reference statements are kept by the library in Entry.Extra; the core model has no
# counterpart, so this family is an oracle on the implementation alone: the generator writes the YANG text itself and
# knows, by construction, the list every copy has to carry: the node's own statements (as written in the grouping),
# followed by those of the grouping statement, followed by those of the uses statement that made the copy (merge appends
# the uses-level statements to every node the uses brings in directly).
EXTRA_KW = ("if-feature", "must", "reference", "status", "when")
ALLOWED = {"leaf": EXTRA_KW, "leaf-list": EXTRA_KW, "container": EXTRA_KW, "list": EXTRA_KW, "anyxml": EXTRA_KW,
           "choice": ("if-feature", "reference", "status", "when"), "case": ("if-feature", "reference", "status", "when"),
           "uses": ("if-feature", "reference", "status", "when"), "grouping": ("reference", "status")}


class CGen:
    def __init__(self, rnd):
        self.r = rnd
        self.uid = 0
        self.features = []

    def n(self, stem):
        self.uid += 1
        return "%s%d" % (stem, self.uid)

    def extras(self, kind, lo=0, hi=5):
        """0..5 statements of the kinds allowed on [kind]: dict keyword -> list of arguments (written order)"""
        r = self.r
        out = {}
        k = r.randint(lo, hi)
        allowed = ALLOWED[kind]
        for _ in range(k):
            kw = r.choice(allowed if kind == "grouping" else ("if-feature", "if-feature", "if-feature") + tuple(allowed))
            if kw == "if-feature":
                f = self.n("f")
                self.features.append(f)
                out.setdefault(kw, []).append(f)
            elif kw == "must":
                out.setdefault(kw, []).append(self.n("mu"))
            elif kw not in out:
                out[kw] = [self.n("st") if kw != "status" else r.choice(["current", "deprecated", "obsolete"])]
        return out

    def node(self, depth, top=False):
        """(kind, name, extras, children)"""
        r = self.r
        x = r.random()
        if depth <= 0 or x < 0.4:
            k = r.choice(["leaf", "leaf", "leaf-list", "anyxml"])
            return (k, self.n("n"), self.extras(k), [])
        if x < 0.65:
            return ("container", self.n("c"), self.extras("container"), [self.node(depth - 1) for _ in range(r.randint(0, 2))])
        if x < 0.8:
            return ("list", self.n("li"), self.extras("list"), [self.node(depth - 1) for _ in range(r.randint(0, 2))])
        cases = [("case", self.n("cs"), self.extras("case"), [self.node(depth - 1) for _ in range(r.randint(1, 2))])
                 for _ in range(r.randint(1, 2))]
        return ("choice", self.n("ch"), self.extras("choice"), cases)


def c_render_extras(ex, ind):
    out = ""
    for kw in EXTRA_KW:
        for a in ex.get(kw, []):
            out += '%s%s "%s";\n' % (ind, kw, a) if kw in ("must", "when", "reference") else "%s%s %s;\n" % (ind, kw, a)
    return out


def c_render(n, ind):
    k = n[0]
    if k == "uses":
        _, ref, ex, _g = n
        return "%suses %s {\n%s%s}\n" % (ind, ref, c_render_extras(ex, ind + "  "), ind) if ex else "%suses %s;\n" % (ind, ref)
    _, name, ex, kids = n
    body = c_render_extras(ex, ind + "  ")
    if k in ("leaf", "leaf-list"):
        body += ind + "  type string;\n"
    body += "".join(c_render(c, ind + "  ") for c in kids)
    return "%s%s %s {\n%s%s}\n" % (ind, k, name, body, ind)


def c_join(a, b):
    out = {k: list(v) for k, v in a.items()}
    for k, v in b.items():
        out.setdefault(k, [])
        out[k] = out[k] + list(v)
    return out


def c_expand(kids):
    """expected tree of a statement list: list of (name, extras, children) after uses expansion"""
    out = []
    for n in kids:
        if n[0] == "uses":
            _, ref, ex, g = n
            add = c_join(g[2], ex)                       # the grouping statement's, then the uses statement's
            for (nm, e, ch) in c_expand(g[3]):
                out.append((nm, c_join(e, add), ch))
        else:
            out.append((n[1], n[2], c_expand(n[3])))
    return out


def c_canon(ex):
    return sorted("%s=%s" % (k, ",".join(v)) for k, v in ex.items() if v)


def gen_constraints(rnd):
    """-> (texts [(file name, text)], expected {module: expanded top-level list}, markers)"""
    g = CGen(rnd)
    r = rnd
    groupings = []      # ("grouping", name, extras, kids)
    for gi in range(r.randint(1, 3)):
        kids = [g.node(2, True) for _ in range(r.randint(1, 3))]
        if groupings and r.random() < 0.6:
            t = r.choice(groupings)
            u = ("uses", t[1], g.extras("uses", 1, 4), t)
            if r.random() < 0.5:
                kids.insert(r.randint(0, len(kids)), u)
            else:
                kids.append(("container", g.n("k"), g.extras("container"), [u]))
        groupings.append(("grouping", g.n("g"), g.extras("grouping", 0, 2), kids))
    m0_body, m1_body = [], []
    for gr in groupings:
        for ui in range(r.randint(2, 3)):
            in_m1 = r.random() < 0.3
            ref = ("p0:" if in_m1 or r.random() < 0.3 else "") + gr[1]
            u = ("uses", ref, g.extras("uses", 0 if r.random() < 0.2 else 1, 5), gr)
            holder = r.choice(["container", "list", "case"])
            if holder == "case":
                n = ("choice", g.n("hch"), {}, [("case", g.n("hcs"), {}, [u])])
            else:
                n = (holder, g.n("h"), g.extras(holder, 0, 2), [u])
            (m1_body if in_m1 else m0_body).append(n)
    feats = "".join("  feature %s;\n" % f for f in g.features)
    t0 = 'module m0 {\n  namespace "urn:m0";\n  prefix p0;\n%s%s%s}\n' % (
        feats, "".join(c_render(x, "  ") for x in groupings), "".join(c_render(x, "  ") for x in m0_body))
    t1 = 'module m1 {\n  namespace "urn:m1";\n  prefix p1;\n  import m0 { prefix p0; }\n%s  leaf z { type string; }\n}\n' % (
        "".join(c_render(x, "  ") for x in m1_body))
    return [("m0.yang", t0), ("m1.yang", t1)], {"m0": c_expand(m0_body), "m1": c_expand(m1_body)}, len(groupings)


def c_compare(tree, expected, path, bad):
    """tree: dump node of the holder; expected: list of (name, extras, children)"""
    kids = {c["name"]: c for c in (tree.get("children") or [])}
    for (nm, ex, ch) in expected:
        c = kids.get(nm)
        if c is None:
            bad.append("%s/%s: missing" % (path, nm))
            continue
        got = sorted(c.get("extra") or [])
        if got != c_canon(ex):
            bad.append("%s/%s: extra statements %s, want %s" % (path, nm, got, c_canon(ex)))
        c_compare(c, ch, path + "/" + nm, bad)


# ------------------------------------------------------------------ family "scoped names" (implementation only)
# Typedef and identity names inside a grouping resolve in the scope where the grouping is DEFINED: the innermost
# enclosing typedef of that name (whether the reference is written plain or with the module's own prefix -- in a
# submodule the belongs-to prefix), else the top level of the defining module / its submodules; a prefix of an import
# statement of the DEFINING (sub)module denotes that import, even where the using module binds the prefix differently or
# where a submodule re-uses its module's own prefix for an import.  Types are opaque in the core model, so this is an
# oracle on the implementation alone; every typedef carries a unique marker (its units) and base type, the generator
# knows the marker each reference has to resolve to, and every copy must show it.
SN_NAMES = ("ta", "tb", "tc")
SN_BASES = ("uint8", "int16", "uint16", "int32", "string", "boolean", "uint64", "int8", "uint32", "int64")


class SNGen:
    def __init__(self, rnd):
        self.r = rnd
        self.uid = 0

    def n(self, stem):
        self.uid += 1
        return "%s%d" % (stem, self.uid)

    def typedefs(self, p=0.45):
        """typedef definitions of one scope: name -> (base, marker)"""
        out = {}
        for nm in SN_NAMES:
            if self.r.random() < p:
                out[nm] = (self.r.choice(SN_BASES), self.n("mk"))
        return out

    def leaves(self, chain, env):
        """1..3 leaves referring to typedefs / identities; chain: typedef dicts innermost first; env: the defining file"""
        r = self.r
        out = []
        for _ in range(r.randint(1, 3)):
            x = r.random()
            nm = r.choice(SN_NAMES)
            if x < 0.65:
                ref = nm if r.random() < 0.5 else env["own"] + ":" + nm
                exp = None
                for sc in chain:
                    if nm in sc:
                        exp = sc[nm]
                        break
                if exp is None:
                    exp = env["top"][nm]
                out.append(("leaf", self.n("l"), "type %s;" % ref, ("type", exp[0], exp[1])))
            elif x < 0.74 and env.get("chain"):
                # a typedef / identity that lives in a submodule reached only through nested includes
                lvl = r.choice(env["chain"])
                if r.random() < 0.5:
                    out.append(("leaf", self.n("l"), "type %s:deep%d;" % (env["own"], lvl), ("type", "int64", "deep%d" % lvl)))
                else:
                    out.append(("leaf", self.n("l"), "type identityref { base %s:kind%d; }" % (env["own"], lvl),
                                ("id", "main/main-sub%d:kind%d" % (lvl, lvl))))
            elif x < 0.8:
                out.append(("leaf", self.n("l"), "type %s:%s;" % (env["ip"], nm), ("type", "uint32", "other-" + nm)))
            elif x < 0.9:
                out.append(("leaf", self.n("l"), "type identityref { base %s:kind; }" % env["own"], ("id", "main:kind")))
            else:
                out.append(("leaf", self.n("l"), "type identityref { base %s:kind; }" % env["ip"], ("id", "other:kind")))
        return out

    def scope(self, depth, chain, env):
        """children of a scope: leaves, nested containers/lists with their own typedefs"""
        r = self.r
        kids = self.leaves(chain, env)
        if depth > 0:
            for _ in range(r.randint(0, 2)):
                td = self.typedefs(0.35)
                kids.append((r.choice(["container", "list"]), self.n("c"), td, self.scope(depth - 1, [td] + chain, env)))
        return kids


def sn_render(n, ind):
    k = n[0]
    if k == "leaf":
        return "%sleaf %s { %s }\n" % (ind, n[1], n[2])
    if k == "uses":
        return "%suses %s;\n" % (ind, n[1])
    _, name, td, kids = n
    body = "".join('%s  typedef %s { type %s; units "%s"; }\n' % (ind, t, b, mk) for t, (b, mk) in sorted(td.items()))
    body += "".join(sn_render(c, ind + "  ") for c in kids)
    return "%s%s %s {\n%s%s}\n" % (ind, k, name, body, ind)


def sn_expand(kids):
    out = []
    for n in kids:
        if n[0] == "uses":
            out += sn_expand(n[2][3])
        elif n[0] == "leaf":
            out.append((n[1], n[3], []))
        elif n[0] == "grouping":
            continue
        else:
            out.append((n[1], None, sn_expand(n[3])))
    return out


def gen_scoped_names(rnd):
    g = SNGen(rnd)
    r = rnd
    has_sub = r.random() < 0.7
    bp = r.choice(["m", "self"]) if has_sub else "m"
    sub_ip = "m" if (bp == "self" and r.random() < 0.7) else "o"
    main_names = [n for n in SN_NAMES if not has_sub or r.random() < 0.6]
    sub_names = [n for n in SN_NAMES if n not in main_names]
    top = {}
    for n in main_names:
        top[n] = (r.choice(SN_BASES), "main-" + n)
    for n in sub_names:
        top[n] = (r.choice(SN_BASES), "sub-" + n)
    # main includes main-sub only; main-sub includes main-sub2, which includes main-sub3 (nested-only includes)
    chain = [2, 3][:r.randint(1, 2)] if has_sub and r.random() < 0.6 else []
    envs = {"main": dict(own="m", ip="o", top=top, chain=chain), "sub": dict(own=bp, ip=sub_ip, top=top, chain=chain)}
    groupings = {"main": [], "sub": []}
    for where in ["main"] + (["sub"] if has_sub else []):
        env = envs[where]
        for _ in range(r.randint(1, 2)):
            td = g.typedefs(0.6)
            kids = g.scope(r.randint(1, 3), [td], env)
            if r.random() < 0.4:
                # a grouping nested in the grouping, used inside it: its references see the outer grouping's typedefs
                itd = g.typedefs(0.3)
                ig = ("grouping", g.n("ng"), itd, g.scope(1, [itd, td], env))
                kids.append(ig)
                kids.append(("container", g.n("u"), {}, [("uses", ig[1], ig)]))
            groupings[where].append(("grouping", g.n("g"), td, kids))
    main_body, sub_body, user_body = [], [], []
    for where in ("main", "sub"):
        for gr in groupings[where]:
            sites = ["main", "user"] + (["sub"] if where == "sub" else []) + ["main"]
            for site in r.sample(sites, r.randint(2, min(3, len(sites)))):
                # decoy typedefs in the USING scope must not capture anything
                h = (r.choice(["container", "list"]), g.n("h"), g.typedefs(0.5), [("uses", ("mn:" if site == "user" else "") + gr[1], gr)])
                {"main": main_body, "sub": sub_body, "user": user_body}[site].append(h)
    def tds(names, pfx):
        return "".join('  typedef %s { type %s; units "%s"; }\n' % (n, top[n][0], top[n][1]) for n in names)
    main = ('module main {\n  namespace "urn:main";\n  prefix m;\n  import other { prefix o; }\n%s%s'
            '  identity kind;\n  identity main-kind { base kind; }\n%s%s}\n'
            % ("  include main-sub;\n" if has_sub else "", tds(main_names, "main"),
               "".join(sn_render(x, "  ") for x in groupings["main"]), "".join(sn_render(x, "  ") for x in main_body)))
    other = ('module other {\n  namespace "urn:other";\n  prefix o;\n%s  identity kind;\n  identity other-kind { base kind; }\n}\n'
             % "".join('  typedef %s { type uint32; units "other-%s"; }\n' % (n, n) for n in SN_NAMES))
    # the using module binds the prefixes m and o to something else: they must not leak into the copies
    user = ('module user {\n  namespace "urn:user";\n  prefix u;\n  import main { prefix mn; }\n  import decoy { prefix o; }\n'
            '  import decoy2 { prefix m; }\n%s%s}\n'
            % ("".join('  typedef %s { type binary; units "user-%s"; }\n' % (n, n) for n in SN_NAMES),
               "".join(sn_render(x, "  ") for x in user_body)))
    decoy = "".join('module %s {\n  namespace "urn:%s";\n  prefix d;\n%s  identity kind;\n}\n' % (nm, nm,
                    "".join('  typedef %s { type binary; units "%s-%s"; }\n' % (n, nm, n) for n in SN_NAMES)) for nm in ["decoy"])
    decoy2 = decoy.replace("decoy", "decoy2")
    texts = [("main.yang", main), ("other.yang", other), ("user.yang", user), ("decoy.yang", decoy), ("decoy2.yang", decoy2)]
    if has_sub:
        sub = ('submodule main-sub {\n  belongs-to main { prefix %s; }\n  import other { prefix %s; }\n%s%s%s%s  leaf subleaf { type string; }\n}\n'
               % (bp, sub_ip, "  include main-sub2;\n" if chain else "", tds(sub_names, "sub"),
                  "".join(sn_render(x, "  ") for x in groupings["sub"]), "".join(sn_render(x, "  ") for x in sub_body)))
        texts.append(("main-sub.yang", sub))
        for lvl in chain:
            texts.append(("main-sub%d.yang" % lvl,
                          'submodule main-sub%d {\n  belongs-to main { prefix m; }\n%s  typedef deep%d { type int64; units "deep%d"; }\n'
                          '  identity kind%d;\n  identity kind%d-derived { base kind%d; }\n  leaf deepleaf%d { type string; }\n}\n'
                          % (lvl, "  include main-sub%d;\n" % (lvl + 1) if lvl + 1 in chain else "", lvl, lvl, lvl, lvl, lvl, lvl)))
    r.shuffle(texts)
    expected = {"main": sn_expand(main_body) + sn_expand(sub_body), "user": sn_expand(user_body)}
    return texts, expected, dict(sub=has_sub, belongs_prefix=bp, sub_import_prefix=sub_ip, nested_includes=len(chain))


def sn_compare(tree, expected, path, bad, cnt):
    kids = {c["name"]: c for c in (tree.get("children") or [])}
    for (nm, exp, ch) in expected:
        c = kids.get(nm)
        if c is None:
            bad.append("%s/%s: missing" % (path, nm))
            continue
        if exp is not None:
            t = c.get("type") or {}
            cnt[0] += 1
            if exp[0] == "type":
                got = ("type", t.get("kind"), t.get("units"))
            else:
                got = ("id", t.get("idbase"))
            if got != exp:
                bad.append("%s/%s: resolved to %s, want %s" % (path, nm, got, exp))
        sn_compare(c, ch, path + "/" + nm, bad, cnt)


# ------------------------------------------------------------------ run
def run_go(lines):
    tmp = tempfile.mkdtemp(prefix="c06cwd")
    try:
        return lib.run_go(lines, cwd=tmp)
    finally:
        shutil.rmtree(tmp, ignore_errors=True)


def go_obs(line):
    st, canon, j = sg.canon_go(line)
    return (canon if st == "ok" else st), st, j


def run(res, tier, seed, proof):
    rnd = random.Random(seed)
    n_worlds = 260 if tier == "quick" else 2800
    worlds = []
    for i in range(n_worlds):
        w = gen_world(random.Random(rnd.getrandbits(64)), depth=(6 if i % 9 == 0 else None))
        worlds.append(w)
    n_hooks = 60 if tier == "quick" else 700
    for i in range(n_hooks):
        worlds.append(gen_hook_world(random.Random(rnd.getrandbits(64))))
    stats = dict(worlds=n_worlds, hook_worlds=n_hooks, ok=0, err=0, depth_hist={}, groupings=0, uses=0, max_nodes=0, shadowed_names=0,
                 faithful_pairs=0, independence_single=0, independence_double=0, later_use=0, negative=0, positive_fixed=0,
                 mutation_kinds={})
    viol = [0]

    def violation(what, rep):
        viol[0] += 1
        if viol[0] <= 3:
            res.violation(what, rep)

    # ---- tie + faithful copy
    lines_go, lines_ml, meta = [], [], []
    for wi, w in enumerate(worlds):
        s_uses = plain(w.mods)
        s_inl = plain(inline_schema(w.mods))
        lines_go += [sg.go_case(s_uses), sg.go_case(s_inl)]
        lines_ml += [sg.model_case(s_uses), sg.model_case(s_inl)]
        meta.append((s_uses, s_inl))
        d = max(w.level.values()) if w.level else 0
        stats["depth_hist"][d] = stats["depth_hist"].get(d, 0) + 1
        stats["groupings"] += len(w.level)
        names = [g[2] for g in w.groupings]
        stats["shadowed_names"] += len(names) - len(set(names))
        stats["max_nodes"] = max(stats["max_nodes"], sum(count_nodes(m["body"]) for m in s_inl))
    go = run_go(lines_go)
    ml = lib.run_ml(lines_ml)
    # the reference expansion of coq/Spec/C06.v (extracted [inline_schema], command `inline`) against the generator's own
    # inlining: the proved spec and the text handed to the implementation are the same expansion
    if HAVE_SPEC:
        sp = lib.run_ml(["inline" + l[len("resolve"):] for l in lines_ml[0::2]])
        stats["spec_inline_compared"] = 0
        for wi, w in enumerate(worlds):
            want = "ok " + " ".join(sg.enc_list(plain(inline_schema(w.mods, spec=True)), sg.enc_module))
            if sp[wi] == "none":
                # unknown / cyclic reference or fuel: the model must report an error (C06_T3)
                stats["spec_inline_none"] = stats.get("spec_inline_none", 0) + 1
                if ml[2 * wi] != "err":
                    violation("inline_schema fails but the model builds the set without error",
                              dict(kind="spec-inline", ml_case=lines_ml[2 * wi]))
                continue
            stats["spec_inline_compared"] += 1
            if sp[wi] != want:
                violation("the extracted reference expansion inline_schema and the generator's own inlining differ",
                          dict(kind="spec-inline", ml_case=lines_ml[2 * wi], spec=sp[wi][:3000], generator=want[:3000],
                               text="\n".join(sg.render_module(m) for m in meta[wi][0])))
    base_ok = []
    for wi, (s_uses, s_inl) in enumerate(meta):
        gu, stu, ju = go_obs(go[2 * wi])
        gi, sti, _ = go_obs(go[2 * wi + 1])
        mu, mi = ml[2 * wi], ml[2 * wi + 1]
        stats["ok" if stu == "ok" else "err"] += 1
        if gu != mu:
            violation("model and implementation disagree on a grouping schema: impl=%s model=%s" % (gu[:200], mu[:200]),
                      dict(kind="correspondence", go_case=lines_go[2 * wi], ml_case=lines_ml[2 * wi], impl=gu, model=mu,
                           text="\n".join(sg.render_module(m) for m in s_uses)))
        if gu != gi:
            violation("faithful copy: implementation gives different results for `uses` and for the inlined text: uses=%s inlined=%s"
                      % (gu[:200], gi[:200]),
                      dict(kind="faithful", go_case=lines_go[2 * wi], go_case_inlined=lines_go[2 * wi + 1],
                           text="\n".join(sg.render_module(m) for m in s_uses),
                           text_inlined="\n".join(sg.render_module(m) for m in s_inl)))
        if mu != mi:
            violation("model: resolve differs between `uses` and inlined form (theorem C06-T1 would be false): %s vs %s"
                      % (mu[:200], mi[:200]),
                      dict(kind="model-faithful", ml_case=lines_ml[2 * wi], ml_case_inlined=lines_ml[2 * wi + 1]))
        stats["faithful_pairs"] += 1
        if stu == "ok":
            # faithful copy includes Entry.Prefix: every node shows the prefix of the module in whose text it is written
            w = worlds[wi]
            badp = []
            index = {}

            def put(owner, nd, path):
                index[(owner, path)] = nd
                for c in nd.get("children") or []:
                    put(owner, c, path + (c["name"],))
                for io in ("input", "output"):
                    if nd.get(io):
                        put(owner, nd[io], path + (io,))
            for md in ju["runs"][-1]["modules"]:
                if not md["sub"]:
                    put(md["name"], md["tree"], ())
            for (owner, steps), pfx in expected_prefixes(w).items():
                nd = index.get((owner, steps))
                if nd is None:
                    continue
                stats["prefixes_compared"] = stats.get("prefixes_compared", 0) + 1
                if nd.get("prefix", "") != pfx:
                    badp.append("/%s/%s: prefix %r, want %r" % (owner, "/".join(steps), nd.get("prefix", ""), pfx))
            stats["direct_top_level_uses"] = stats.get("direct_top_level_uses", 0) + getattr(w, "direct_top", 0)
            stats["cross_module_augments_with_uses"] = stats.get("cross_module_augments_with_uses", 0) + getattr(w, "cross_augments", 0)
            if badp:
                violation("faithful copy: Entry.Prefix of a node is not the prefix of the module that defines it: %s"
                          % "; ".join(badp[:3]),
                          dict(kind="prefix", go_case=lines_go[2 * wi], mismatches=badp[:20],
                               text="\n".join(sg.render_module(m) for m in s_uses)))
            if ju["runs"][-1]["treeviol"]:
                violation("tree invariant violated after a clean Process: %s" % ju["runs"][-1]["treeviol"][:3],
                          dict(kind="treeviol", go_case=lines_go[2 * wi], treeviol=ju["runs"][-1]["treeviol"]))
            base_ok.append(wi)

    # ---- independence
    ind_lines, ind_meta = [], []
    for wi in base_ok:
        w = worlds[wi]
        insts = [x for x in instance_paths(w) if x[3] is not None]
        if not insts:
            continue
        later = pick_later_use(w)
        if later:
            stats["later_use"] += 1
        # instances of one grouping definition node: group by (origin gid, node identity)
        groups = {}
        for x in insts:
            groups.setdefault(id(x[4]), []).append(x)
        multi = [v for v in groups.values() if len(v) >= 2]
        hook_ids = {id(h) for h in w.hooks}
        hook_multi = [v for v in multi if id(v[0][4]) in hook_ids or
                      (v[0][2] in ("input", "output", "case") and not (v[0][4][3] if v[0][2] == "input" else
                                                                        v[0][4][4] if v[0][2] == "output" else v[0][4][2]))]
        for rep in range((2 if tier == "quick" else 4) + (2 if w.family == "hooks" else 0)):
            same = False
            if hook_multi and (w.family == "hooks" or w.rnd.random() < 0.3):
                grp = w.rnd.choice(hook_multi)
                a, b = w.rnd.sample(grp, 2)
                same = w.rnd.random() < 0.5
                if w.rnd.random() < 0.25:
                    b = None
            elif multi and w.rnd.random() < 0.8:
                grp = w.rnd.choice(multi)
                a, b = w.rnd.sample(grp, 2)
            else:
                a, b = w.rnd.choice(insts), None
            ma = mutation_for(w, a, "a", same_name=same)
            if ma is None:
                continue
            mb = mutation_for(w, b, "b", same_name=same) if b is not None else None
            if same and mb is not None and (ma[2][0] != "added" or mb[2][0] != "added"):
                mb = None
            if mb is not None and (a[1][:len(b[1])] == b[1] or b[1][:len(a[1])] == a[1]) and a[0] == b[0]:
                mb = None        # one position above the other: not independent positions
            if same and mb is not None:
                stats["hook_same_name_pairs"] = stats.get("hook_same_name_pairs", 0) + 1
            if id(a[4]) in hook_ids or a in [x for v in hook_multi for x in v]:
                stats["hook_mutations"] = stats.get("hook_mutations", 0) + 1
            base = plain(w.mods) + [mz_module(w, later, [], [])]
            sa = plain(w.mods) + [mz_module(w, later, ma[0], ma[1])]
            cases = [base, sa]
            if mb is not None:
                sb = plain(w.mods) + [mz_module(w, later, mb[0], mb[1])]
                sab = plain(w.mods) + [mz_module(w, later, ma[0] + mb[0], ma[1] + mb[1])]
                sba = plain(w.mods) + [mz_module(w, later, mb[0] + ma[0], mb[1] + ma[1])]
                cases += [sb, sab, sba]
            start = len(ind_lines)
            for c in cases:
                ind_lines.append(sg.go_case(c))
            ind_meta.append((wi, start, len(cases), a, b if mb is not None else None, ma, mb, cases))
            k = (ma[1][0][1][0]["kind"] + ":" + ",".join(sorted(x for x in ma[1][0][1][0] if x != "kind"))) if ma[1] else "augment"
            stats["mutation_kinds"][k] = stats["mutation_kinds"].get(k, 0) + 1
    ind_go = run_go(ind_lines)
    ind_ml = lib.run_ml([sg.model_case(c) for m in ind_meta for c in m[7]])
    mlp = 0
    for (wi, start, n, a, b, ma, mb, cases) in ind_meta:
        obs = [go_obs(ind_go[start + i]) for i in range(n)]
        for i in range(n):
            if obs[i][0] != ind_ml[mlp + i]:
                violation("model and implementation disagree on a mutated grouping schema: impl=%s model=%s"
                          % (obs[i][0][:200], ind_ml[mlp + i][:200]),
                          dict(kind="correspondence", go_case=ind_lines[start + i], ml_case=sg.model_case(cases[i]),
                               text="\n".join(sg.render_module(m) for m in cases[i])))
        mlp += n
        if any(o[1] != "ok" for o in obs):
            # a mutation the implementation rejects (e.g. target removed by the other one): nothing to compare
            if obs[0][1] == "ok" and obs[1][1] != "ok":
                violation("independence: a mutation chosen to be applicable was rejected: %s" % (ind_go[start + 1][:300]),
                          dict(kind="independence-rejected", go_case=ind_lines[start + 1],
                               text="\n".join(sg.render_module(m) for m in cases[1])))
            continue
        js = [o[2] for o in obs]
        for i, j in enumerate(js):
            if j["runs"][-1]["treeviol"]:
                violation("tree invariant violated after a clean Process: %s" % j["runs"][-1]["treeviol"][:3],
                          dict(kind="treeviol", go_case=ind_lines[start + i], treeviol=j["runs"][-1]["treeviol"]))
            bad = []
            for m in j["runs"][-1]["modules"]:
                walk_flags(m["tree"], bad)
            if bad:
                violation("clean result carries errors or pending augments: %s" % bad[:3],
                          dict(kind="flags", go_case=ind_lines[start + i]))

        def cuts_of(mut, inst):
            mode = mut[2]
            if mode[0] == "added":
                return [(inst[0], mode[1] + [mode[2]])]
            return [(inst[0], mode[1])]
        ca = cuts_of(ma, a)
        rep = dict(kind="independence", go_case_base=ind_lines[start], go_case_mutated=ind_lines[start + 1],
                   target=[a[0]] + a[1], text_base="\n".join(sg.render_module(m) for m in cases[0]),
                   text_mutated="\n".join(sg.render_module(m) for m in cases[1]))
        # the later use in mz and everything outside the target is unchanged
        if canon_forest(js[0], ca, skip=()) != canon_forest(js[1], ca, skip=()):
            violation("independence: mutating %s changed something outside it" % ("/".join([a[0]] + a[1])), rep)
        stats["independence_single"] += 1
        if mb is not None:
            cb = cuts_of(mb, b)
            rep2 = dict(rep, go_case_b=ind_lines[start + 2], go_case_ab=ind_lines[start + 3], target_b=[b[0]] + b[1],
                        text_ab="\n".join(sg.render_module(m) for m in cases[3]))
            if canon_forest(js[0], cb, skip=()) != canon_forest(js[2], cb, skip=()):
                violation("independence: mutating %s changed something outside it" % ("/".join([b[0]] + b[1])), rep2)
            for k in (3, 4):
                # with both mutations: outside B everything (A's subtree included) is as with A alone, and vice versa
                if canon_forest(js[k], cb, skip=()) != canon_forest(js[1], cb, skip=()):
                    violation("independence: instance %s differs when another instance (%s) of the same grouping is mutated too"
                              % ("/".join([a[0]] + a[1]), "/".join([b[0]] + b[1])), rep2)
                if canon_forest(js[k], ca, skip=()) != canon_forest(js[2], ca, skip=()):
                    violation("independence: instance %s differs when another instance (%s) of the same grouping is mutated too"
                              % ("/".join([b[0]] + b[1]), "/".join([a[0]] + a[1])), rep2)
            stats["independence_double"] += 1

    # ---- negative and fixed positive scoping cases
    neg = negative_cases(rnd)
    pos = positive_fixed()
    ngo = run_go([sg.go_case(s) for _, s in neg] + [sg.go_case(s) for _, _, s in pos])
    nml = lib.run_ml([sg.model_case(s) for _, s in neg] + [sg.model_case(s) for _, _, s in pos])
    for i, (label, s) in enumerate(neg):
        g, st, _ = go_obs(ngo[i])
        stats["negative"] += 1
        if st != "err" or nml[i] != "err":
            violation("negative case %s: expected an error on both sides, impl=%s model=%s" % (label, g[:100], nml[i][:100]),
                      dict(kind="negative", label=label, go_case=sg.go_case(s), ml_case=sg.model_case(s),
                           text="\n".join(sg.render_module(m) for m in s)))
    for i, (label, want, s) in enumerate(pos):
        g, st, j = go_obs(ngo[len(neg) + i])
        m = nml[len(neg) + i]
        stats["positive_fixed"] += 1
        got = None
        if st == "ok":
            a = get_at(tree_of(j, "m0"), ["a"])
            got = sorted(c["name"] for c in (a.get("children") or [])) if a else None
        if label == "nested-ref-in-defining-scope-local":
            okk = st == "ok" and g == m
        else:
            okk = st == "ok" and g == m and got == [want]
        if not okk:
            violation("scoping case %s: expected /a to hold exactly leaf %s; impl=%s model=%s" % (label, want, g[:200], m[:200]),
                      dict(kind="scoping", label=label, go_case=sg.go_case(s), ml_case=sg.model_case(s),
                           text="\n".join(sg.render_module(m) for m in s)))

    # ---- repaired defects stay repaired: two instances of a leaf-list, one `deviate add default` on each
    reg = regression_cases()
    rgo = run_go([sg.go_case(x[1]) for x in reg])
    rml = lib.run_ml([sg.model_case(x[1]) for x in reg])
    stats["regression"] = len(reg)
    for (label, sch, wa, wb), g, m in zip(reg, rgo, rml):
        o, st, j = go_obs(g)
        got = None
        if st == "ok":
            t = tree_of(j, "m0")
            got = (get_at(t, ["A", "ll"]).get("default"), get_at(t, ["B", "ll"]).get("default"))
        if st != "ok" or o != m or got != (wa, wb):
            violation("independence: `deviate add default` on two instances of one leaf-list (%s): got %s, want %s; "
                      "model %s" % (label, got, (wa, wb), "agrees" if o == m else "differs"),
                      dict(kind="correspondence", go_case=sg.go_case(sch), ml_case=sg.model_case(sch),
                           text="\n".join(sg.render_module(x) for x in sch)))

    # ---- family "constraints": extra statements of the copies (implementation only)
    n_con = 150 if tier == "quick" else 3000
    con = [gen_constraints(random.Random(rnd.getrandbits(64))) for _ in range(n_con)]
    con_lines = ["process - L0,L1,P 2 " + " ".join("%s %s" % (sg.hx(fn), sg.hx(tx)) for fn, tx in texts) for texts, _, _ in con]
    con_go = run_go(con_lines)
    stats["constraint_cases"] = n_con
    stats["constraint_nodes_compared"] = 0
    for (texts, expected, _), line, g in zip(con, con_lines, con_go):
        o, st, j = go_obs(g)
        rep = dict(kind="constraints", go_case=line, text="\n".join(t for _, t in texts))
        if st != "ok":
            violation("constraints family: the implementation did not accept the set: %s" % g[:300], rep)
            continue
        bad = []
        for mn, exp in expected.items():
            c_compare(tree_of(j, mn), exp, "/" + mn, bad)
        stats["constraint_nodes_compared"] += g.count('"name"')
        if bad:
            violation("faithful/independent copy of constraints: %s" % "; ".join(bad[:3]), dict(rep, mismatches=bad[:20]))
        if j["runs"][-1]["treeviol"]:
            violation("tree invariant violated after a clean Process: %s" % j["runs"][-1]["treeviol"][:3],
                      dict(rep, treeviol=j["runs"][-1]["treeviol"]))

    # ---- family "scoped names": typedef / identity references inside groupings (implementation only)
    n_sn = 150 if tier == "quick" else 3000
    sn = [gen_scoped_names(random.Random(rnd.getrandbits(64))) for _ in range(n_sn)]
    sn_lines = ["process - %s %d %s" % (",".join(["L%d" % i for i in range(len(t))] + ["P"]), len(t),
                                         " ".join("%s %s" % (sg.hx(fn), sg.hx(tx)) for fn, tx in t)) for t, _, _ in sn]
    sn_go = run_go(sn_lines)
    stats.update(scoped_name_cases=n_sn, scoped_name_refs_compared=0, scoped_name_shapes={})
    for (texts, expected, shape), line, g in zip(sn, sn_lines, sn_go):
        o, st, j = go_obs(g)
        rep = dict(kind="constraints", go_case=line, text="\n".join(t for _, t in sorted(texts)), shape=shape)
        key = "%s/%s/%s/%d" % (shape["sub"], shape["belongs_prefix"], shape["sub_import_prefix"], shape["nested_includes"])
        stats["scoped_name_shapes"][key] = stats["scoped_name_shapes"].get(key, 0) + 1
        if st != "ok":
            violation("scoped names family: the implementation did not process the set cleanly: %s"
                      % (j["runs"][-1]["errors"][:2] if j else g[:300]), rep)
            continue
        bad, cnt = [], [0]
        for mn, exp in expected.items():
            sn_compare(tree_of(j, mn), exp, "/" + mn, bad, cnt)
        stats["scoped_name_refs_compared"] += cnt[0]
        if bad:
            violation("a name inside a grouping did not resolve in the grouping's defining scope: %s" % "; ".join(bad[:3]),
                      dict(rep, mismatches=bad[:20]))

    n_heap = heap_leg(res, tier, rnd, violation, stats)
    evaluations = n_heap + len(lines_go) + len(ind_lines) + len(neg) + len(pos) + len(reg) + n_con + n_sn + stats.get("spec_inline_compared", 0)
    cov = dict(
        evaluations=evaluations,
        distinct_nontrivial=stats["ok"] + stats["independence_single"] + stats["independence_double"],
        rule="family `scoped names` (implementation only): typedef / identity references inside groupings of a module and of its "
             "submodule (belongs-to prefix equal to or different from the module's prefix; the submodule's import prefix may be "
             "the module's own prefix), typedefs re-defined at every nesting level (grouping, nested grouping, container, list), "
             "references written plain, with the own prefix and with an import prefix, decoy typedefs in every using scope and "
             "using module, 2..3 uses per grouping from module, submodule and an importing module; every copy must show the "
             "marker (units, base type / identity base) of the definition the generator chose by construction.  "
             "Family `constraints` (implementation only): 1..3 groupings whose nodes (leaf, leaf-list, anyxml, container, list, "
             "choice, case; nesting <= 3) carry 0..5 if-feature/must/when/status/reference statements, groupings using "
             "groupings, 2..3 uses per grouping from m0 and an importing m1, each uses with 0..5 if-feature/when/status/"
             "reference substatements of its own; every copy's Extra lists must equal node ++ grouping ++ uses (faithful) and "
             "hence contain nothing of another uses (independent).  Family `empty hooks`: groupings holding directory nodes WITHOUT children (container, list, choice, case, action "
             "input/output) at depth 1..3, 2..3 uses in the same module, a submodule and an importing module, augmented in one "
             "instance or in two instances with equally named children; such empty nodes also occur (12%) in every body of "
             "the tower family.  Family `towers`: grouping towers (depth 1..6, every 9th world depth 6) over m0 [+ imported m1 [+ submodule m1s1]] [+ submodules "
             "m0s1, m0s2 (nested or sibling include)], definitions at module, submodule, imported-module and up to three nested "
             "container/list/case scopes, names drawn from {g,h,k} so that one name is defined at several levels and in several "
             "modules, groupings nested in groupings, each grouping used >= 2 times from container/list/case/rpc input/"
             "rpc output/notification/augment positions, grouping bodies with lists and leaf-lists (min/max-elements), actions "
             "with input/output, choices with shorthand cases; per world: tie (model vs implementation), faithful pair "
             "(uses vs generator-inlined text on the implementation and on the model), two independence experiments (one or "
             "two mutations: augment, not-supported, replace min/max/default/config, add default); fixed negative "
             "(unknown / out of scope / cyclic / duplicate) and positive scoping cases; non-trivial = clean worlds and "
             "completed independence comparisons",
        exhaustive=False, mismatches=viol[0], distribution=stats,
        samples=[lines_go[0][:300], lines_go[-1][:300]] + ([ind_lines[0][:300]] if ind_lines else []),
        sample_observations=[go[0][:300], go[-1][:300]] + ([ind_go[0][:300]] if ind_go else []),
    )
    assumptions = [
        "types are builtin type names (typedef scoping inside groupings is C09); identities are not generated (C11)",
        "typedef and identity resolution have no counterpart in the core model (types are opaque names there; C09/C11 own "
        "the resolution itself): the family `scoped names` checks on the implementation alone that references inside groupings "
        "resolve in the defining scope and identically in every copy",
        "constraints (if-feature, must, when, status, reference) have no counterpart in the core model: the family "
        "`constraints` is an oracle on the implementation alone (expected lists known to the generator by construction: the "
        "node's own statements, then the grouping statement's, then those of the uses statement that made the copy)",
        "refine and uses-augment are outside the modelled subset (the library ignores them)",
        "object sharing and parent pointers do not exist in the tree model (Model/Schema.v): for dup / add / merge they are proved on "
        "the heap model (Model/Heap.v, theorems C06_heap_*) which heap_leg compares with the implementation's pointer graph on "
        "hand-built entry graphs; for whole Process runs they are checked on the implementation by the pointer-level walker "
        "(treeviol) and by the two-run independence oracle (testing, not proof)",
        "heap model: ListAttr, Extra, Default and the RPCEntry record are by-value fields of a cell (= always copied); the harness "
        "reports pointer identity of those records on the implementation, so a shared one shows as a difference; Type, Node, Exts, "
        "Prefix and namespace are references shared between source and copy (only Type and namespace are represented, as tokens)",
        "the generator decides which grouping a uses denotes with its own statement of the scoping rules (innermost enclosing "
        "definition, else module level own statements, else import named by the prefix, else includes depth first); the "
        "rules are cross-checked by fixed cases with hand-written expected results",
    ]
    return cov, assumptions


def replay(rep, res):
    rc = 0
    for k in ("go_case", "go_case_inlined", "go_case_base", "go_case_mutated", "go_case_b", "go_case_ab"):
        if k in rep:
            g, st, j = go_obs(run_go([rep[k]])[0])
            print("%s: %s" % (k, g[:2000]))
            if j is not None and st == "ok" and j["runs"][-1]["treeviol"]:
                print("  treeviol:", j["runs"][-1]["treeviol"])
    for k in ("ml_case", "ml_case_inlined"):
        if k in rep:
            print("%s: %s" % (k, lib.run_ml([rep[k]])[0][:2000]))
    if rep.get("kind") == "heap":
        g = run_go([rep["heap_case"]])[0]
        m = lib.run_ml([rep["heap_case"]])[0]
        print("impl : %s\nmodel: %s" % (g, m))
        return 0 if g == m else 1
    if rep.get("kind") == "constraints":
        print(rep["text"])
        print("mismatches:", rep.get("mismatches"))
        return 1
    for k in ("text", "text_inlined", "text_base", "text_mutated", "text_ab"):
        if k in rep:
            print("---- %s\n%s" % (k, rep[k]))
    if rep.get("kind") == "correspondence":
        g, _, _ = go_obs(run_go([rep["go_case"]])[0])
        m = lib.run_ml([rep["ml_case"]])[0]
        rc = 0 if g == m else 1
    elif rep.get("kind") in ("faithful",):
        a, _, _ = go_obs(run_go([rep["go_case"]])[0])
        b, _, _ = go_obs(run_go([rep["go_case_inlined"]])[0])
        rc = 0 if a == b else 1
    else:
        rc = 1
    return rc


# ------------------------------------------------------------------ pointer-level leg: heap model of dup / add / merge / FixChoice
# coq/Model/Heap.v (theorems C06_heap_* for dup, add, merge; FixChoice is model + correspondence only) against (*Entry).dup /
# add / merge / FixChoice on hand-built *yang.Entry graphs: both sides get
# the SAME graph and the same operations and print the resulting pointer graph canonically (nodes numbered by first visit,
# each with its parent's number; a node reachable twice -- e.g. a copy that still points into the source -- shows as a
# link to an earlier number).  Command `heap` of harness/go/heap.go and harness/ml/cmd_heap.ml.
HAVE_HEAP = (not lib.PARTS) or ("heap" in lib.PARTS)
K_LEAF, K_DIR, K_CASE, K_CHOICE, K_IN, K_OUT = 0, 1, 4, 5, 6, 8


def heap_gen_tree(rnd, cells, parent, name, depth, shape):
    """appends a random entry tree to cells (list of dicts), returns the id of its root"""
    i = len(cells)
    c = dict(parent=parent, name=name, kind=K_DIR, la=None, ty=None, kids=[], inp=None, out=None)
    cells.append(c)
    r = rnd.random()
    if depth <= 0 or r < 0.3:
        c["kind"] = K_LEAF
        c["ty"] = rnd.randrange(3)
        if rnd.random() < 0.35:
            c["la"] = (rnd.randrange(3), rnd.choice([1, 7, MAXU64]))
            shape["leaflist"] += 1
        else:
            shape["leaf"] += 1
        return i
    if r < 0.6 and r >= 0.45:
        # choice: children are cases (kind 4) or shorthand nodes that FixChoice wraps
        c["kind"] = K_CHOICE
        shape["choice"] += 1
        for k in range(rnd.randrange(0, 4)):
            knm = rnd.choice("abcde") + str(k)
            j = heap_gen_tree(rnd, cells, i, knm, depth - 1, shape)
            if cells[j]["kind"] == K_DIR and cells[j]["inp"] is None and cells[j]["out"] is None and rnd.random() < 0.6:
                cells[j]["kind"] = K_CASE
                shape["case"] += 1
            else:
                shape["shorthand_case"] += 1
            c["kids"].append((knm, j))
        rnd.shuffle(c["kids"])
        return i
    if r < 0.45:
        # rpc / action: a directory entry with input and/or output, each with children of its own
        shape["rpc"] += 1
        for fld, kind, nm in (("inp", K_IN, "input"), ("out", K_OUT, "output")):
            if rnd.random() < 0.8:
                j = len(cells)
                io = dict(parent=i, name=nm, kind=kind, la=None, ty=None, kids=[], inp=None, out=None)
                cells.append(io)
                for k in range(rnd.randrange(0, 3)):
                    knm = rnd.choice("abcde") + str(k)
                    io["kids"].append((knm, heap_gen_tree(rnd, cells, j, knm, depth - 1, shape)))
                rnd.shuffle(io["kids"])
                c[fld] = j
                shape["rpc_io_children"] += len(io["kids"])
        return i
    if r < 0.78:
        c["la"] = (rnd.randrange(3), rnd.choice([2, 9, MAXU64]))
        shape["list"] += 1
    else:
        shape["container"] += 1
    for k in range(rnd.randrange(0, 4)):
        knm = rnd.choice("abcde") + str(k)
        c["kids"].append((knm, heap_gen_tree(rnd, cells, i, knm, depth - 1, shape)))
    rnd.shuffle(c["kids"])
    return i


def heap_enc(cells, ops, roots):
    def o(x):
        return "~" if x is None else str(x)
    t = ["heap", str(len(cells))]
    for c in cells:
        t += [o(c["parent"]), (c["name"].encode().hex() or "-"), str(c["kind"]),
              "~" if c["la"] is None else "%d:%d" % c["la"], o(c["ty"]), "~", str(len(c["kids"]))]
        for k, v in c["kids"]:
            t += [k.encode().hex() or "-", str(v)]
        t += [o(c["inp"]), o(c["out"])]
    t.append(str(len(ops)))
    for op in ops:
        t += [str(x) for x in op]
    t.append(str(len(roots)))
    t += [str(r) for r in roots]
    return " ".join(t)


def heap_case(rnd, shape):
    """a grouping-like source tree g, a target tree tg, and a random script of dup / merge / add"""
    cells = []
    g = heap_gen_tree(rnd, cells, None, "g", rnd.randrange(1, 4), shape)
    while cells[g]["kind"] == K_LEAF or (not cells[g]["kids"] and rnd.random() < 0.7):
        del cells[:]
        g = heap_gen_tree(rnd, cells, None, "g", rnd.randrange(1, 4), shape)
    tg = heap_gen_tree(rnd, cells, None, "t", rnd.randrange(0, 3), shape)
    if cells[tg]["kind"] == K_LEAF or cells[tg]["inp"] is not None or cells[tg]["out"] is not None:
        tg = len(cells)
        cells.append(dict(parent=None, name="t", kind=rnd.choice([K_DIR, K_DIR, K_CHOICE]), la=None, ty=None, kids=[], inp=None, out=None))
    ops, ndup, kinds = [], 0, []
    form = rnd.randrange(7)
    if form == 0:                       # two successive copies of one source
        ops = [("D", g), ("D", g)]
        ndup = 2
    elif form == 1:                     # a copy of a sub-tree, then a copy of the copy
        sub = rnd.randrange(len(cells))
        ops = [("D", sub), ("D", "r0")]
        ndup = 2
    elif form == 2:                     # uses g twice under one target: the second merge reports duplicates
        ops = [("M", tg, rnd.choice(["~", 1, 2]), g)] + ([("M", tg, rnd.choice(["~", 3]), g)] if rnd.random() < 0.6 else [])
    elif form == 3:                     # a copy added under the target under a fresh or a taken key
        key = rnd.choice([k for k, _ in cells[tg]["kids"]] + ["zz", "g"])
        ops = [("D", g), ("A", tg, key.encode().hex(), "r0")]
        if rnd.random() < 0.5:
            ops += [("D", g), ("A", tg, rnd.choice(["zz", "yy"]).encode().hex(), "r1")]
    elif form == 4:                     # merge into a copy, merge the result on
        ops = [("D", tg), ("M", "r0", 1, g), ("M", tg, "~", "r0"), ("D", g)]
    elif form == 5:                     # implicit cases, on the source or on a copy (the source must stay as it was)
        ops = rnd.choice([[("F", g)], [("D", g), ("F", "r0"), ("D", "r0")], [("F", g), ("D", g), ("F", g)]])
    else:                               # uses under a (possibly choice) target, perhaps twice (errors: no cases then), then FixChoice
        ops = [("M", tg, rnd.choice(["~", 2]), g)] + ([("M", tg, "~", g)] if rnd.random() < 0.3 else []) + [("F", tg)]
    for op in ops:
        kinds.append(op[0])
    return heap_enc(cells, ops, [g, tg]), len(cells), form, kinds


def heap_leg(res, tier, rnd, violation, stats):
    if not HAVE_HEAP:
        stats["heap"] = "not linked (VERIF_PARTS)"
        return 0
    n = 2500 if tier == "quick" else 30000
    shape = dict(leaf=0, leaflist=0, container=0, list=0, rpc=0, rpc_io_children=0, choice=0, case=0, shorthand_case=0)
    lines, sizes, forms, opk = [], {}, {}, {}
    for i in range(n):
        line, sz, form, kinds = heap_case(random.Random(rnd.getrandbits(64)), shape)
        lines.append(line)
        b = min(sz // 5 * 5, 40)
        sizes[b] = sizes.get(b, 0) + 1
        forms[form] = forms.get(form, 0) + 1
        for k in kinds:
            opk[k] = opk.get(k, 0) + 1
    go = run_go(lines)
    ml = lib.run_ml(lines)
    bad = shared = dup_errors = 0
    for l, g, m in zip(lines, go, ml):
        if " e=1 " in m or " e=2 " in m:
            dup_errors += 1
        if g != m:
            bad += 1
            violation("pointer graph after dup/add/merge differs between the heap model (coq/Model/Heap.v) and the implementation: "
                      "impl=%s model=%s" % (g[:300], m[:300]),
                      dict(kind="heap", heap_case=l, impl=g, model=m))
    stats["heap"] = dict(cases=n, mismatches=bad, cells_hist=sizes, script_forms=forms, ops=opk, node_shapes=shape,
                         cases_with_duplicate_errors=dup_errors)
    return n
