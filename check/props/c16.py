"""C16 — reported source positions are the true positions (generic parser part).

Correspondence: yang.Parse and the proved model (coq/Model/Lex.v, Parse.v) are run on the same texts and the
whole observation is compared: the statement forest with (line, column) of every statement, or the ordered
list of positions printed in the error text.  The theorems in coq/Properties/C16.v say the model's positions
are the true ones, so any disagreement is a position (or parse) the library gets wrong: a VIOLATION with the
text as replay."""
import itertools
import random
import re

import lib
from props import c16front        # builder errors from the text on (FrontEnd.v), its own leg


def hx(s):
    if isinstance(s, str):
        s = s.encode("utf-8")
    return s.hex() if s else "-"


def case(s):
    return "parse " + hx(s)


# ------------------------------------------------------------------ layout noise
GAPS = [" ", "  ", "\t", " \t", "\t \t", "\n", "\r\n", "\n\t", "\n    ", " // c\n", "//\n", "// é \t x\r\n",
        "/**/", "/* x */", " /* a\n\tb */ ", "/* é\t*/", "/*/ */", "\n\n", " \r ", "/* * / */\t"]
KEYWORDS = ["a", "leaf", "é", "日本", "a-b:c", "x/y", "+", "+a", "a+", "/", "pattern", "0", "oc-ext:posix-pattern", "o:pattern", "posix-pattern"]
UNQ_ARGS = ["b", "1..2", "é", "x:y", "a/b", "+", "//x"[2:], "a\\b"]
SQ_ARGS = ["'b'", "''", "' \t'", "'a\nb'", "'é\r\nq'", "'\"'", "'a // b'", "'/*'"]
DQ_ARGS = ['"b"', '""', '"a b"', '"a\n   b"', '"a \t\n\t  b"', '"\\n\\t\\"\\\\"', '"é\n\tü"', '"a\r\nb"', '"}"', '";{"',
           '"a\n\n  \n b"', '"//"', '"/* x"', '"^\\d+$"']


def gap(rnd, need):
    """a blank/comment run; need=True: must separate two unquoted tokens"""
    k = rnd.choice([0, 1, 1, 1, 2, 3]) if not need else rnd.choice([1, 1, 2, 3])
    g = "".join(rnd.choice(GAPS) for _ in range(k))
    if need and g.startswith("/"):
        g = " " + g
    return g


def gen_arg(rnd):
    r = rnd.random()
    if r < 0.2:
        return None
    if r < 0.45:
        return rnd.choice(UNQ_ARGS)
    pieces = [rnd.choice(SQ_ARGS + DQ_ARGS) for _ in range(rnd.choice([1, 1, 1, 2, 3]))]
    out = pieces[0]
    for p in pieces[1:]:
        g = gap(rnd, False)
        out += gap(rnd, False) + "+" + (" " + g if g.startswith("/") else g) + p  # "+/" would start an unquoted token
    return out


def gen_stmt(rnd, depth, toks):
    """append the tokens (strings) of one statement to toks"""
    toks.append(("kw", rnd.choice(KEYWORDS)))
    a = gen_arg(rnd)
    if a is not None:
        toks.append(("arg", a))
    if depth > 0 and rnd.random() < 0.4:
        toks.append(("open", "{"))
        for _ in range(rnd.choice([0, 1, 1, 2, 3])):
            gen_stmt(rnd, depth - 1, toks)
        toks.append(("close", "}"))
    else:
        toks.append(("semi", ";"))


def render(rnd, toks):
    out = [gap(rnd, False)]
    prev = None
    for kind, t in toks:
        need = prev in ("kw", "arg") and kind in ("kw", "arg") and not (prev == "arg" and False)
        if prev is not None:
            g = gap(rnd, need)
            # an unquoted token directly followed by a comment opener would glue to it
            if prev in ("kw", "arg") and g.startswith("/"):
                g = " " + g
            out.append(g)
        out.append(t)
        prev = kind
    out.append(gap(rnd, False))
    return "".join(out)


def gen_text(rnd):
    toks = []
    for _ in range(rnd.choice([1, 1, 2, 3])):
        gen_stmt(rnd, 3, toks)
    return toks


FAULTS = ["extra-close", "drop-semi", "quoted-keyword", "bad-escape", "open-dquote", "open-squote", "open-comment",
          "drop-open", "drop-close", "stray-quote-arg"]


def mutate(rnd, toks, fault):
    toks = list(toks)
    n = len(toks)
    i = rnd.randrange(n + 1)
    if fault == "extra-close":
        toks.insert(i, ("close", "}"))
    elif fault in ("drop-semi", "drop-open", "drop-close"):
        want = {"drop-semi": "semi", "drop-open": "open", "drop-close": "close"}[fault]
        idx = [j for j, (k, _) in enumerate(toks) if k == want]
        if idx:
            del toks[rnd.choice(idx)]
    elif fault == "quoted-keyword":
        idx = [j for j, (k, _) in enumerate(toks) if k == "kw"]
        j = rnd.choice(idx)
        toks[j] = ("arg", rnd.choice(["'k'", '"k"', '"é\n k"']))
    elif fault == "bad-escape":
        esc = rnd.choice(['"a\\qb"', '"\\q"', '"é\t\\x"', '"a\n \t\\é"', '"\\\n"', '"a\\', '"\\q\\w\\e"'])
        idx = [j for j, (k, _) in enumerate(toks) if k == "arg"]
        if idx:
            toks[rnd.choice(idx)] = ("arg", esc)
        else:
            toks.insert(1, ("arg", esc))
    elif fault == "open-dquote":
        toks.insert(i, ("arg", rnd.choice(['"', '"abc', '"a\n\tb'])))
    elif fault == "open-squote":
        toks.insert(i, ("arg", rnd.choice(["'", "'abc", "'a\n\tb"])))
    elif fault == "open-comment":
        toks.insert(i, ("cmt", rnd.choice(["/*", "/* a\n b", "/*/", "/* *"])))
    elif fault == "stray-quote-arg":
        toks.insert(i, ("arg", rnd.choice(["'x'", '"y"', "z"])))
    return toks


NOISE_ALPHABET = ["a", ";", "{", "}", '"', "'", "\\", "/", "*", "\t", "\n", "\r", "é"]

# ------------------------------------------------------------------ token-level exhaustive sequences
# The character-level sweeps are too short to build e.g.  a "b" "+" "c";  (12 characters), so whole TOKENS are
# enumerated as well: quoted spellings of + ; { }, the empty string, an undefined escape, the keyword pattern.
TOKEN_ALPHABET = ["a", "pattern", "+", ";", "{", "}", '"b"', "'b'", '"+"', "'+'", '";"', '"{"', '"}"', '""', '"a\\d"']
UNQUOTED_TOKENS = {"a", "pattern", "+"}


def render_tokens(seq, rnd=None):
    """minimal separators (a blank only between two unquoted tokens); with rnd: random blanks / comments instead"""
    out = []
    prev = None
    for t in seq:
        if prev is not None:
            need = prev in UNQUOTED_TOKENS and t in UNQUOTED_TOKENS
            if rnd is None:
                out.append(" " if need else "")
            else:
                g = gap(rnd, need)
                out.append(" " + g if (prev in UNQUOTED_TOKENS and g.startswith("/")) else g)
        out.append(t)
        prev = t
    return "".join(out)


CORE_TOKENS = ["a", "pattern", "+", ";", "{", "}", '"b"', "'b'", '"+"', "'+'", '""']


# ------------------------------------------------------------------ code points that are NOT blanks for YANG
# RFC 7950 separates tokens by space, tab, carriage return and line feed only.  Everything unicode.IsSpace adds (VT, FF,
# NEL, NBSP, ...) and a few look-alike neighbours that IsSpace does not include are ordinary token characters.
UNI_SPACES = [0x0B, 0x0C, 0x85, 0xA0, 0x1680] + list(range(0x2000, 0x200B)) + [0x2028, 0x2029, 0x202F, 0x205F, 0x3000]
UNI_NEIGHBOURS = [0x1C, 0x1D, 0x1E, 0x1F, 0x200B, 0xFEFF, 0x180E, 0xAD, 0x2060, 0x00,
                  # the replacement character itself, validly encoded (EF BF BD), its neighbours, the ends of the planes
                  0xFFFD, 0xFFFC, 0xFFFE, 0xFFFF, 0xD7FF, 0xE000, 0x10000, 0x1F600, 0x10FFFF]
UNI_TEMPLATES = ["W", "aWb;", "k xWy;", "kWv;", "k vW;", "k v;W", "k v;\nW\n", "Wk v;", "k v;W\n", "W;", "k W;", "k W v;", "kW{Wl m;W}", "k {WlWm;}W",
                 'k "xWy";', "k 'xWy';", 'k "x W\n Wy";', 'k "xW\nWy";', "k /*W*/ v;", "k/*W*/v;", "k v; //W\nz w;", "k v; //\nWz w;", "/*W", "//W",
                 'k "a"W+W"b";', 'k "a" +W"b";', 'pattern "\\W";', 'k "\\W";', "k 'a'W;", "W W", "k\tW\tv;", "k\r\nW\r\nv;", "a;Wb;", "a{W}", "k W{ l; }",
                 "k v;\nW", "k v; W }", '"W" v;']


# genuinely invalid UTF-8: lone continuation / start bytes, truncated, overlong, surrogate, beyond U+10FFFF.  lex.go decodes
# each offending byte as U+FFFD of width 1 (utf8.DecodeRuneInString); so does the harness for the model.
INVALID_BYTES = [b"\x80", b"\xff", b"\xc3", b"\xe2\x82", b"\xf0\x9f\x98", b"\xc0\xaf", b"\xe0\x80\xaf", b"\xed\xa0\x80",
                 b"\xf4\x90\x80\x80", b"\xfe\xfe\xff\xff", b"\xc3\x28"]


def go_decode(b):
    """bytes -> code points exactly as a Go `for range` / utf8.DecodeRuneInString loop does"""
    out, i, n = [], 0, len(b)
    cont = lambda j: j < n and (b[j] & 0xC0) == 0x80
    while i < n:
        c = b[i]
        if c < 0x80:
            out.append(c); i += 1
        elif 0xC2 <= c <= 0xDF and cont(i + 1):
            out.append(((c & 0x1F) << 6) | (b[i + 1] & 0x3F)); i += 2
        elif 0xE0 <= c <= 0xEF and cont(i + 1) and cont(i + 2):
            r = ((c & 0x0F) << 12) | ((b[i + 1] & 0x3F) << 6) | (b[i + 2] & 0x3F)
            if r < 0x800 or 0xD800 <= r <= 0xDFFF:
                out.append(0xFFFD); i += 1
            else:
                out.append(r); i += 3
        elif 0xF0 <= c <= 0xF4 and cont(i + 1) and cont(i + 2) and cont(i + 3):
            r = ((c & 0x07) << 18) | ((b[i + 1] & 0x3F) << 12) | ((b[i + 2] & 0x3F) << 6) | (b[i + 3] & 0x3F)
            if r < 0x10000 or r > 0x10FFFF:
                out.append(0xFFFD); i += 1
            else:
                out.append(r); i += 4
        else:
            out.append(0xFFFD); i += 1
    return out


def canon_runes(obs):
    """an observation with every hex field (keyword, argument) re-encoded from its Go-style decoding: yang.Parse keeps the raw
    bytes of unquoted and single-quoted text, the rune-level model has U+FFFD there"""
    def h2(h):
        return h if h == "-" else "".join(chr(r) for r in go_decode(bytes.fromhex(h))).encode("utf-8").hex()
    return re.sub(r"\(([0-9a-f\-]+),([01]),([0-9a-f\-]+)", lambda m: "(%s,%s,%s" % (h2(m.group(1)), m.group(2), h2(m.group(3))), obs)


def invalid_utf8_texts():
    out = []
    for bad in INVALID_BYTES:
        for t in UNI_TEMPLATES:
            out.append(t.encode("utf-8").replace(b"W", bad))
    return out


def unicode_space_texts(tier="quick"):
    out = []
    for cp in UNI_SPACES + UNI_NEIGHBOURS:
        w = chr(cp)
        for t in UNI_TEMPLATES:
            out.append(t.replace("W", w))
    return out


def unicode_space_exhaustive(maxlen):
    """every string up to maxlen over {a ; { " ' SP LF W} for every such code point W"""
    for cp in UNI_SPACES + UNI_NEIGHBOURS:
        w = chr(cp)
        for n in range(1, maxlen + 1):
            for tup in itertools.product(["a", ";", "{", '"', "'", " ", "\n", w], repeat=n):
                if w in tup:
                    yield "".join(tup)


# ------------------------------------------------------------------ deep nesting
DEPTHS = [255, 256, 257, 258, 300, 511, 512, 513, 1000, 1024]
DEEP_DEPTHS = [2048, 4096, 5000]          # far below the parser.stack-depth known finding (millions of levels)
DEEP_OPEN = ["a{", "a x{", 'a "s" {', "a 'q'+\"r\"{", "a{c;", "a\n{\n", "pattern \"\\d\" {", "é\t{ // c\n"]


DEEP_OPEN_NODQ = ["a{", "a x{", "a 'q' {", "a{c;", "a\n{\n", "é\t{ // c\n"]   # the extracted reader needs ~1 ms per double-quoted token


def deep_texts(depths, opens=None):
    """balanced texts nested d deep (with / without arguments, strings, siblings, line breaks at every level) and unbalanced ones"""
    out = []
    for d in depths:
        for k, o in enumerate(opens or DEEP_OPEN):
            out.append(o * d + "b;" + "}" * d)
            if k < 2:
                out.append(o * d + "}" * d)                       # innermost block empty
                out.append(o * d + "b;" + "}" * (d - 1))           # one closing brace missing
                out.append(o * d + "b;" + "}" * (d + 1))           # one too many
                out.append(o * d + "b;")                           # none closed
                out.append(o * d + "b;" + "} z;" * d)              # a sibling after every block
    return out


def token_sequences(maxlen, minlen=0, alphabet=None):
    for n in range(minlen, maxlen + 1):
        for seq in itertools.product(alphabet or TOKEN_ALPHABET, repeat=n):
            yield seq


def gen(tier, seed):
    rnd = random.Random(seed)
    cases, kinds = [], []

    def add(kind, text):
        cases.append(case(text))
        kinds.append(kind)

    # every short text over an alphabet chosen for positions: tab, CR, LF, a two-byte rune, quotes, comments
    maxlen = 4 if tier == "quick" else 5
    for n in range(maxlen + 1):
        for tup in itertools.product(NOISE_ALPHABET, repeat=n):
            add("exhaustive", "".join(tup))
    # every short TOKEN sequence (quoted + ; { }, empty string, undefined escape, pattern), minimal and noisy layout
    tl = 3 if tier == "quick" else 4
    for seq in token_sequences(tl, 1):
        add("tokens", render_tokens(seq))
        add("tokens-noisy", render_tokens(seq, rnd))
    # code points unicode.IsSpace knows but YANG does not (and neighbours): they are token characters, one column each
    for t in unicode_space_texts():
        add("unicode-space", t)
    for t in unicode_space_exhaustive(3 if tier == "quick" else 4):
        add("unicode-space-exhaustive", t)
    # deep nesting (the extracted model takes about 1 s at depth 1000, 45 s at 5000: the model goes up to 513 here, 1024 thorough)
    for t in deep_texts([255, 256, 257, 513] if tier == "quick" else DEPTHS, ["a{", "a\n{\n", "é\t{ // c\n"]):
        add("deep", t)
    # well-formed texts under layout noise
    nwf = 6000 if tier == "quick" else 120000
    for _ in range(nwf):
        add("well-formed", render(rnd, gen_text(rnd)))
    # single-fault mutants, each fault kind at random places (so: after tabs, multi-byte runes, comments, strings)
    nm = 1500 if tier == "quick" else 30000
    for f in FAULTS:
        for _ in range(nm):
            add("fault:" + f, render(rnd, mutate(rnd, gen_text(rnd), f)))
    # many errors in one text (error budget of 8, then "too many errors")
    for k in range(0, 14):
        add("budget", "a " + '"' + "\\q" * k + '";')
        add("budget", "".join("'x'\t" for _ in range(k)) + "}")
        add("budget", "\n".join("} é" for _ in range(k)))
        add("budget", "a " + " ".join('"\\q"' for _ in range(k)) + " /*")
    # a fixed corpus of the layouts the property text names
    for t in ["\ta b;", "\t\té b;", "é\té b;", "/* c */ a b;", "/* c\n */\ta b;", "// c\r\na b;\r\n\tc d;", "a 'x\ny' ; b c;",
              'a "x\n  y"\t; b c;', 'a "x\r\n  y"\r\n; b c;', "a\t{\n\tb\tc;\n\t}\n}", "a b\n\tc d;", "a b {\n  'k' v;\n}",
              'a "b\\\n";', 'a "\t\\q";', "a 'b", 'a\n\t"b', "a b; /* c", "a b; \t/*", "日本 語;\t日 本;", "a b;;", "{", "a {",
              "a { b; ", "a b }", "a b c;", " " * 3000 + "a b;\t}", "/*" + "é" * 2500 + "*/ a {" + "\t" * 2000 + "b 'c" + "d" * 3000 + "' } }", "a 'b' 'c';", "a 'b' + ;", "a 'b' +", "a + + ;", "a\r b;\r c d;"]:
        add("corpus", t)
    return cases, kinds


# ====================================================================== family 2: semantic errors
# Third sentence of the property: every file:line:col in an error from building or resolving a module is the start
# of a statement of that file, and it is the RIGHT statement.  Decided by an oracle on the implementation alone:
# single-semantic-fault module sets are written as YANG text with the faulty statement marked (@@), layout noise is
# put in front of it, Modules.Parse / Process run on them (harness `process`), and every position found anywhere in
# an error string is looked up in the statement list of that file (harness `parse`).
import json
import tempfile


def MOD(body, name="a", extra=""):
    return 'module %s { namespace "urn:%s"; prefix %s; %s ## %s }' % (name, name, name, extra, body)


LIB_B = ("b.yang", 'module b { namespace "urn:b"; prefix b; typedef bt { type int8 { range "1..10"; } } '
                   'grouping bg { leaf x { type string; } } }')
IMP_B = "import b { prefix b; }"

# (label, class of the injected fault, nestable, files).  @@ = start of the statement the error must name;
# ## = a place where whole noise statements may be put.  class "other": the property does not single out a statement.
SEM_CASES = [
    # unknown substatement, at various depths and in various parents
    ("unk-container", "unknown-field", True, [("a.yang", MOD("container c { ## @@bogus x; }"))]),
    ("unk-module", "unknown-field", False, [("a.yang", MOD("@@bogus x;"))]),
    ("unk-leaf-in-list", "unknown-field", True, [("a.yang", MOD("list l { key k; ## leaf k { type string; @@bogus 1; } }"))]),
    ("unk-type", "unknown-field", True, [("a.yang", MOD("leaf l { type string { @@bogus 1; } }"))]),
    ("unk-rpc-input", "unknown-field", False, [("a.yang", MOD("rpc r { input { ## @@bogus 1; } }"))]),
    ("unk-grouping", "unknown-field", True, [("a.yang", MOD("grouping g { ## @@bogus 1; }"))]),
    ("unk-typedef", "unknown-field", True, [("a.yang", MOD("typedef t { type string; @@bogus 1; }"))]),
    ("unk-augment", "unknown-field", False, [("a.yang", MOD('container c { } augment "/c" { ## @@bogus 1; }'))]),
    ("unk-import", "unknown-field", False, [("a.yang", MOD("", extra="import b { prefix b; @@bogus 1; }")), LIB_B]),
    ("unk-enum", "unknown-field", True, [("a.yang", MOD("leaf l { type enumeration { enum a { @@bogus 1; } } }"))]),
    ("unk-statement", "unknown-statement", False, [("a.yang", "@@foo bar;")]),
    ("top-not-a-module", "other", False, [("a.yang", "@@leaf l { type string; }")]),
    ("unk-kind-field-module", "unknown-field", False, [("a.yang", MOD("@@belongs-to x { prefix x; }"))]),
    ("unk-kind-field-submodule", "unknown-field", False, [("s.yang", 'submodule s { belongs-to a { prefix a; } @@namespace "urn:s"; }')]),
    # a mandatory substatement is missing: the statement that lacks it
    ("req-leaf-type", "missing-required", True, [("a.yang", MOD('container c { ## @@leaf l { description "x"; } }'))]),
    ("req-leaflist-type", "missing-required", True, [("a.yang", MOD("## @@leaf-list l { units x; }"))]),
    ("req-typedef-type", "missing-required", True, [("a.yang", MOD('## @@typedef t { description "x"; }'))]),
    ("req-import-prefix", "missing-required", False, [("a.yang", MOD("", extra="@@import b { }")), LIB_B]),
    ("req-module-namespace", "missing-required", False, [("a.yang", "@@module a { prefix a; }")]),
    ("req-module-prefix", "missing-required", False, [("a.yang", '@@module a { namespace "urn:a"; }')]),
    ("req-submodule-belongs-to", "missing-required", False, [("s.yang", "@@submodule s { }")]),
    ("req-belongs-to-prefix", "missing-required", False, [("s.yang", "submodule s { @@belongs-to a { } }")]),
    ("req-deviation-deviate", "missing-required", False, [("a.yang", MOD('container c { } ## @@deviation "/c" { }'))]),
    # the type statement whose name is bad
    ("type-unknown", "type", True, [("a.yang", MOD("## leaf l { @@type nosuch; }"))]),
    ("type-unknown-own-prefix", "type", True, [("a.yang", MOD("leaf l { @@type a:nosuch; }"))]),
    ("type-unknown-in-import", "type", True, [("a.yang", MOD("leaf l { @@type b:nosuch; }", extra=IMP_B)), LIB_B]),
    ("type-unknown-prefix", "type", True, [("a.yang", MOD("leaf l { @@type zz:t; }"))]),
    ("type-unknown-in-typedef", "type", True, [("a.yang", MOD("typedef t { @@type nosuch; } ## leaf l { type t; }"))]),
    ("type-unknown-in-unused-typedef", "type", True, [("a.yang", MOD("typedef t { @@type nosuch; }"))]),
    ("type-unknown-in-union", "type", True, [("a.yang", MOD("leaf l { type union { type string; @@type nosuch; } }"))]),
    ("type-unknown-in-grouping", "type", False, [("a.yang", MOD("grouping g { ## leaf l { @@type nosuch; } } container c { uses g; }"))]),
    ("type-unknown-leaflist", "type", True, [("a.yang", MOD("leaf-list l { @@type nosuch; }"))]),
    ("type-unknown-in-other-file", "type", False, [("a.yang", MOD("container c { uses b2:g; }", extra="import b2 { prefix b2; }")),
                                                  ("b2.yang", MOD("grouping g { ## leaf l { @@type nosuch; } }", "b2"))]),
    ("type-deviation", "type", False, [("a.yang", MOD('leaf l { type string; } ## deviation "/a:l" { deviate replace { @@type nosuch; } }'))]),
    ("typedef-self", "typedef", True, [("a.yang", MOD("## @@typedef t { type t; } leaf l { type t; }"))]),
    ("typedef-cycle", "typedef", True, [("a.yang", MOD("typedef t { type u; } ## typedef u { type t; } leaf l { type t; }"))]),
    ("fraction-digits-19", "type", True, [("a.yang", MOD("leaf l { @@type decimal64 { fraction-digits 19; } }"))]),
    ("fraction-digits-0", "type", True, [("a.yang", MOD("leaf l { @@type decimal64 { fraction-digits 0; } }"))]),
    ("fraction-digits-missing", "type", True, [("a.yang", MOD("leaf l { @@type decimal64; }"))]),
    ("fraction-digits-on-string", "type", True, [("a.yang", MOD("leaf l { @@type string { fraction-digits 2; } }"))]),
    ("fraction-digits-override", "type", True, [("a.yang", MOD("typedef t { type decimal64 { fraction-digits 2; } } ## leaf l { @@type t { fraction-digits 3; } }"))]),
    ("identityref-no-base", "type", True, [("a.yang", MOD("leaf l { @@type identityref; }"))]),
    # uses of an unknown grouping
    ("uses-unknown", "uses", True, [("a.yang", MOD("container c { ## @@uses nosuch; }"))]),
    ("uses-unknown-top", "uses", False, [("a.yang", MOD("@@uses nosuch;"))]),
    ("uses-unknown-in-grouping", "uses", False, [("a.yang", MOD("grouping g { container d { ## @@uses nosuch; } } container c { uses g; }"))]),
    ("uses-unknown-in-augment", "uses", False, [("a.yang", MOD('container c { } augment "/c" { ## @@uses nosuch; }'))]),
    ("uses-unknown-in-rpc-input", "uses", False, [("a.yang", MOD("rpc r { input { ## @@uses nosuch; } }"))]),
    ("uses-unknown-in-list", "uses", True, [("a.yang", MOD("list l { key k; leaf k { type string; } @@uses nosuch; }"))]),
    ("uses-unknown-imported", "uses", True, [("a.yang", MOD("container c { @@uses b:nosuch; }", extra=IMP_B)), LIB_B]),
    ("uses-unknown-in-choice-case", "uses", True, [("a.yang", MOD("choice ch { case k { ## @@uses nosuch; } }"))]),
    ("grouping-self", "grouping", False, [("a.yang", MOD("## @@grouping g { uses g; } container c { uses g; }"))]),
    ("grouping-cycle", "grouping", False, [("a.yang", MOD("grouping g { uses h; } ## grouping h { uses g; } container c { uses g; }"))]),
    # bad range / length
    ("range-syntax", "range", True, [("a.yang", MOD('leaf l { type int8 { @@range "1..x"; } }'))]),
    ("range-order", "range", True, [("a.yang", MOD('## leaf l { type int8 { @@range "5..1"; } }'))]),
    ("range-not-within-parent", "range", True, [("a.yang", MOD('typedef t { type int8 { range "1..10"; } } ## leaf l { type t { @@range "0..20"; } }'))]),
    ("range-not-within-builtin", "range", True, [("a.yang", MOD('leaf l { type uint8 { @@range "0..256"; } }'))]),
    ("range-on-typedef", "range", True, [("a.yang", MOD('typedef t { type int32 { @@range "5..1"; } } ## leaf l { type t; }'))]),
    ("range-second-part", "range", True, [("a.yang", MOD('leaf l { type int8 { @@range "1..5 | 7..x"; } }'))]),
    ("range-imported-parent", "range", True, [("a.yang", MOD('leaf l { type b:bt { @@range "0..5"; } }', extra=IMP_B)), LIB_B]),
    ("range-decimal", "range", True, [("a.yang", MOD('leaf l { type decimal64 { fraction-digits 2; @@range "1.234..2"; } }'))]),
    ("length-order", "length", True, [("a.yang", MOD('leaf l { type string { @@length "5..1"; } }'))]),
    ("length-negative", "length", True, [("a.yang", MOD('## leaf l { type string { @@length "-1..2"; } }'))]),
    ("length-syntax", "length", True, [("a.yang", MOD('leaf l { type string { @@length "a"; } }'))]),
    ("length-not-within-parent", "length", True, [("a.yang", MOD('typedef t { type string { length "1..4"; } } ## leaf l { type t { @@length "2..9"; } }'))]),
    ("length-on-typedef", "length", True, [("a.yang", MOD('typedef t { type binary { @@length "9..1"; } } leaf l { type t; }'))]),
    # enum / bit
    ("enum-value-conflict", "enum", True, [("a.yang", MOD("leaf l { type enumeration { enum a { value 1; } @@enum b { value 1; } } }"))]),
    ("enum-duplicate-name", "enum", True, [("a.yang", MOD("## leaf l { type enumeration { enum a; @@enum a; } }"))]),
    ("enum-value-syntax", "enum", True, [("a.yang", MOD("leaf l { type enumeration { enum z; @@enum a { value x; } } }"))]),
    ("enum-value-too-large", "enum", True, [("a.yang", MOD("leaf l { type enumeration { @@enum a { value 2147483648; } } }"))]),
    ("enum-value-too-small", "enum", True, [("a.yang", MOD("leaf l { type enumeration { @@enum a { value -2147483649; } } }"))]),
    ("enum-after-max", "enum", True, [("a.yang", MOD("leaf l { type enumeration { enum a { value 2147483647; } @@enum b; } }"))]),
    ("enum-on-typedef", "enum", True, [("a.yang", MOD("typedef t { type enumeration { enum a; @@enum a; } } ## leaf l { type t; }"))]),
    ("bit-position-negative", "enum", True, [("a.yang", MOD("leaf l { type bits { @@bit a { position -1; } } }"))]),
    ("bit-duplicate-name", "enum", True, [("a.yang", MOD("leaf l { type bits { bit a; @@bit a; } }"))]),
    ("bit-position-syntax", "enum", True, [("a.yang", MOD("leaf l { type bits { @@bit a { position x; } } }"))]),
    # augment target missing
    ("augment-missing", "augment", False, [("a.yang", MOD('## @@augment "/nosuch" { leaf x { type string; } }'))]),
    ("augment-missing-deep", "augment", False, [("a.yang", MOD('container c { } ## @@augment "/c/d/e" { leaf x { type string; } }'))]),
    ("augment-other-module", "augment", False, [("a.yang", MOD('@@augment "/b:nosuch" { leaf x { type string; } }', extra=IMP_B)), LIB_B]),
    # not singled out by the property: any position must still be a statement start of a loaded file
    ("dup-leaves", "other", True, [("a.yang", MOD("container c { leaf x { type string; } ## @@leaf x { type int8; } }"))]),
    ("dup-leaf-vs-uses", "other", True, [("a.yang", MOD("grouping g { leaf x { type string; } } container c { @@leaf x { type int8; } uses g; }"))]),
    ("dup-uses-then-leaf", "other", True, [("a.yang", MOD("grouping g { leaf x { type string; } } container c { uses g; @@leaf x { type int8; } }"))]),
    ("dup-augment", "other", False, [("a.yang", MOD('container c { leaf x { type string; } } ## @@augment "/c" { leaf x { type int8; } }'))]),
    ("dup-augment-other-file", "other", False, [("a.yang", MOD('@@augment "/b2:c" { leaf x { type int8; } }', extra="import b2 { prefix b2; }")),
                                               ("b2.yang", MOD("container c { leaf x { type string; } }", "b2"))]),
    ("dup-module", "other", False, [("a.yang", MOD("")), ("a2.yang", "@@" + MOD(""))]),
    ("config-value", "other", True, [("a.yang", MOD("leaf l { type string; @@config maybe; }"))]),
    ("mandatory-value", "other", True, [("a.yang", MOD("leaf l { type string; @@mandatory maybe; }"))]),
    ("max-elements-zero", "other", True, [("a.yang", MOD("leaf-list l { type string; @@max-elements 0; }"))]),
    ("max-elements-syntax", "other", True, [("a.yang", MOD("list l { key k; leaf k { type string; } @@max-elements x; }"))]),
    ("min-elements-negative", "other", True, [("a.yang", MOD("leaf-list l { type string; @@min-elements -1; }"))]),
    ("ordered-by-value", "other", True, [("a.yang", MOD("leaf-list l { type string; @@ordered-by who; }"))]),
    ("identity-base-unknown", "other", False, [("a.yang", MOD("## @@identity i { base nosuch; }"))]),
    ("identity-self", "other", False, [("a.yang", MOD("## @@identity i { base i; }"))]),
    ("include-missing", "other", False, [("a.yang", MOD("", extra="@@include nosuch;"))]),
    ("import-missing", "other", False, [("a.yang", MOD("", extra="@@import nosuch { prefix n; }"))]),
]

# source names handed to Modules.Parse: a position is <name>:<line>:<col> whatever the name looks like
SEM_NAMES = ["%s", "models/my module %s", "models/my%%20module-%s", "vendor/100%%/%s", "50%%d-%s", "%%s%s", "%%v %%d %%q %s", "%%%%-%s",
             "x:y-%s", "%s%%", "dir.yang/é-%s", "%%!s(MISSING)%s", "%%[1]s-%s", "%%*d%s"]
LONG_GAPS = [lambda: " " * 65534, lambda: " " * 66000, lambda: "\t" * 66001, lambda: "/* " + "é" * 70000 + " */", lambda: " " * 131080,
             lambda: "/*" + "x" * 66000 + "*/", lambda: " " * 65535]

SEM_GAPS = [" ", "\t", "\t\t ", "\n", "\r\n", "\n\t", "\r\n    ", " // é ü\n", "/* c */ ", "/* é\n\t日本 */\t", "//\r\n\t", "\n\n\n", " /**/ /* x */ ",
            "\t/* a\r\n b */\r\n\t"]
EXACT_CLASSES = {"unknown-field", "unknown-statement", "missing-required", "type", "typedef", "uses", "grouping", "range", "length",
                 "enum", "augment"}
CLASS_KEYWORDS = {"type": {"type"}, "typedef": {"typedef"}, "uses": {"uses"}, "grouping": {"grouping"}, "range": {"range"},
                  "length": {"length"}, "enum": {"enum", "bit"}, "augment": {"augment"}}
LINECOL = re.compile(r":(-?\d+):(-?\d+)(?=:|\]|\s|$)")
KIND_FIELDS = {"belongs-to", "namespace", "prefix"}    # yang.go `required=module` / `required=submodule`


def classify(msg):
    """class of an error message by its fixed wording -> (class, detail)"""
    m = re.search(r"unknown (\S+) field: (\S+)", msg)
    if m:
        return "unknown-field", (m.group(1), m.group(2))
    m = re.search(r"unknown statement: (\S+)", msg)
    if m:
        return "unknown-statement", m.group(1)
    m = re.search(r"missing required (\S+) field: (\S+)", msg)
    if m:
        return "missing-required", (m.group(1), m.group(2))
    if re.search(r"typedef \S+ is based on itself", msg):
        return "typedef", None
    if re.search(r"unknown type|unknown prefix: \S+ for type|fraction-digits|out of range \[1\.\.18\]|is required in the range of \[1\.\.18\]|"
                 r"identityref must specify a base|no YangType defined", msg):
        return "type", None
    if "unknown group:" in msg:
        return "uses", None
    if re.search(r"grouping \S+ refers to itself", msg):
        return "grouping", None
    if "bad range:" in msg:
        return "range", None
    if "bad length:" in msg or "negative length:" in msg:
        return "length", None
    if re.search(r"conflict on value|already assigned|too large \(maximum is|too small \(minimum is|must specify a value since previous|"
                 r"\.yang:-?\d+:-?\d+: strconv\.", msg):
        return "enum", None
    if re.search(r"augment \S+ not found|target cannot have child nodes", msg):
        return "augment", None
    return "other", None


def linecol(text, off):
    pre = text[:off]
    return pre.count("\n") + 1, len(pre) - (pre.rfind("\n") + 1) + 1


def parse_forest(obs):
    """harness `parse` observation -> list of (keyword, line, col) of every statement, any depth"""
    out = []
    if not obs.startswith("ok "):
        return None
    for m in re.finditer(r"\(([0-9a-f\-]+),[01],[0-9a-f\-]+,(-?\d+),(-?\d+);", obs):
        kw = "" if m.group(1) == "-" else bytes.fromhex(m.group(1)).decode("utf-8", "replace")
        out.append((kw, int(m.group(2)), int(m.group(3))))
    return out


def build_sem_case(rnd, label, cls, nestable, files, counter, names=False, long_gap=None):
    """-> (files with noise, marker (file, line, col) or None)"""
    out, marker = [], None
    pat = rnd.choice(SEM_NAMES[1:]) if names else "%s"
    rename = {n: pat % n for n, _ in files}
    depth = rnd.choice([0, 0, 1, 2, 3]) if nestable else 0
    for name, text in files:
        # noise statements
        def noise_stmt(_m):
            counter[0] += 1
            r = rnd.random()
            if r < 0.35:
                return ""
            if r < 0.6:
                return rnd.choice(SEM_GAPS)
            return 'leaf zz%d { type string; description "é %d\n\t two\r\n   three"; }%s' % (counter[0], counter[0], rnd.choice(SEM_GAPS))
        text = re.sub(r"##", noise_stmt, text)
        if depth and "@@" in text and nestable:
            # wrap the body of module a (everything after the header) into nested containers
            i = text.index("prefix a;") + len("prefix a;") if "prefix a;" in text else -1
            if i > 0 and text.rstrip().endswith("}"):
                j = text.rstrip().rindex("}")
                hdr, body, tail = text[:i], text[i:j], text[j:]
                # imports must stay in the header
                mi = re.match(r"(\s*(?:import \S+ \{[^}]*\}\s*)*)", body)
                imp, body = body[:mi.end()], body[mi.end():]
                for d in range(depth):
                    body = " container n%d {%s%s}" % (d, rnd.choice(SEM_GAPS), body)
                text = hdr + imp + body + tail
        if "@@" in text:
            off = text.index("@@")
            gapt = "".join(rnd.choice(SEM_GAPS) for _ in range(rnd.choice([0, 1, 1, 2, 3])))
            if long_gap is not None:
                gapt = gapt + long_gap() + rnd.choice(["", " ", "\t", "/**/"])
            text = text[:off] + gapt + text[off + 2:]
            ln, cl = linecol(text, off + len(gapt))
            marker = (rename[name], ln, cl)
        out.append((rename[name], text))
    return out, marker


def sem_case_line(files):
    ops = ",".join("L%d" % i for i in range(len(files))) + ",P"
    return "process - %s %d %s" % (ops, len(files), " ".join("%s %s" % (hx(n), hx(t)) for n, t in files))


# ====================================================================== family 3: very long lines
# The extracted lexer model is quadratic in the length of the text (Coq's rev in newLexer / emit), about 70 s for a line of
# 70,000 characters, so these few texts are not run through the model: yang.Parse is compared directly with the positions
# the generator knows (the true linecol of the marked places, which is what T1/T2 prove the model reports).
def long_line_cases(tier):
    pre = [" " * 65534, " " * 65535, " " * 65536, "\t" * 66000, "/* " + "é" * 66000 + " */", "/*" + "x" * 70000 + "*/ ",
           "@@x '" + "y" * 65530 + "';", '@@x "' + "é\\n" * 30000 + '" ;\t', " " * 131071, "@@a b;" * 17000]
    if tier == "quick":
        pre = pre[:3] + [pre[3], pre[4], pre[7], pre[8]]
    out = []
    for p in pre:
        lead = "\n\t// c\r\n" if len(out) % 2 else ""
        # accepted: statements after column 65536, nested
        out.append(("accept", lead + p + "@@leaf l { @@type string;\t@@é { @@x 'y'; } } @@z;"))
        # rejected: unexpected } ; quoted keyword ; missing ; or {
        p = p.replace("@@", "")
        out.append(("brace", lead + p + "a b; @@}"))
        out.append(("brace2", lead + p + "@@} a b; @@}"))
        out.append(("quoted-keyword", lead + p + "@@'k' v;"))
        out.append(("syntax", lead + p + "a b @@'c'@@;"))
    for d in DEPTHS[-2:] + DEEP_DEPTHS:
        out.append(("accept", "@@a\t{\n" * d + "@@b 'x\ny';" + "\n}" * d))
        out.append(("accept", "@@é x{" * d + "}" * d))
        out.append(("brace", "a{" * d + "}" * d + "\n\t@@}"))
    return out


def strip_markers(text):
    """-> (text without @@, [(line, col) of every marked place])"""
    parts = text.split("@@")
    pos, off, acc = [], 0, parts[0]
    for part in parts[1:]:
        pos.append(linecol(acc, len(acc)))
        acc += part
    return acc, pos


def run_long_lines(res, tier):
    cases = long_line_cases(tier)
    texts, want = [], []
    for kind, t in cases:
        t2, pos = strip_markers(t)
        texts.append(t2)
        want.append(pos)
    go = lib.run_go(["parse " + hx(t) for t in texts])
    checked = viol = 0
    for (kind, _), t, pos, g in zip(cases, texts, want, go):
        if kind == "accept":
            got = [(l, c) for _, l, c in (parse_forest(g) or [])]
        else:
            got = [tuple(int(x) for x in p.split(":")) for p in g[4:].split(",") if ":" in p] if g.startswith("err ") else None
        checked += len(pos)
        if got != pos:
            viol += 1
            if viol <= 3:
                res.violation("long line (%d characters, %s): yang.Parse reports positions %s, the text says %s"
                              % (len(t), kind, str(got)[:200], str(pos)[:200]),
                              dict(kind="long-line", case="parse " + hx(t), want=[list(x) for x in pos], impl=g[:400]))
    return dict(cases=len(cases), positions_checked=checked, violations=viol, longest=max(len(t) for t in texts))


def run_semantic(res, tier, rnd):
    n_var = 6 if tier == "quick" else 80
    built, counter = [], [0]
    LONG = {"unk-container", "req-leaf-type", "type-unknown", "uses-unknown", "range-order", "enum-duplicate-name", "augment-missing",
            "dup-leaves", "grouping-self", "typedef-self", "unk-statement", "length-order"}
    for label, cls, nestable, files in SEM_CASES:
        for v in range(n_var):
            # half of the variants under source names with % verbs, blanks, colons, multi-byte runes
            fs, marker = build_sem_case(rnd, label, cls, nestable and v > 0, files, counter, names=(v % 2 == 1))
            built.append((label, cls, fs, marker))
        if label in LONG and "@@" in "".join(t for _, t in files):
            # the faulty statement behind more than 65535 characters on its line
            k = sorted(LONG).index(label)
            for lg in ([LONG_GAPS[k % len(LONG_GAPS)]] if tier == "quick" else LONG_GAPS):
                fs, marker = build_sem_case(rnd, label, cls, False, files, counter, names=(k % 2 == 0), long_gap=lg)
                built.append((label + ":long-line", cls, fs, marker))
    # modules found BY NAME in the current directory (Read / GetModule / import loaded on demand by Process), undated and dated
    # file names, with an older dated decoy: positions must carry exactly the name of the file that was read
    cwd_lines = {}
    main_m = 'module m { namespace "urn:m"; prefix m; import a { prefix a; } }'
    k = 0
    for label, cls, nestable, files in SEM_CASES:
        if len(files) != 1 or files[0][0] != "a.yang" or not files[0][1].startswith("module a {") or "@@" not in files[0][1]:
            continue
        for v in range(1 if tier == "quick" else 6):
            k += 1
            fs, marker = build_sem_case(rnd, label, cls, False, files, counter)
            fname = ["a.yang", "a@2020-02-02.yang", "a@2031-12-31.yang"][k % 3]
            mode = ["read", "import", "get", "read-full-name"][(k // 3) % 4]
            fs = [(fname, fs[0][1])]
            marker = (fname, marker[1], marker[2])
            ops = ["W0"]
            if fname != "a.yang" and k % 2:
                fs.append(("a@2001-01-01.yang", 'module a { namespace "urn:old"; prefix a; }'))      # an older revision lies around
                ops.append("W1")
            if mode == "import":
                fs.append(("m.yang", main_m))
                ops += ["L%d" % (len(fs) - 1), "P"]
            elif mode == "get":
                ops += ["G" + hx("a"), "P"]
            elif mode == "read-full-name":
                ops += ["R" + hx(fname), "P"]
            else:
                ops += ["R" + hx("a"), "P"]
            built.append((label + ":cwd-" + mode, cls, fs, marker))
            cwd_lines[len(built) - 1] = "cwdload %s %d %s" % (",".join(ops), len(fs), " ".join("%s %s" % (hx(n), hx(t)) for n, t in fs))
    plines = [cwd_lines.get(i) or sem_case_line(fs) for i, (_, _, fs, _) in enumerate(built)]
    tmp = tempfile.mkdtemp(prefix="c16cwd")
    pout = lib.run_go(plines, cwd=tmp)
    # statement lists of every file text
    texts = sorted({t for _, _, fs, _ in built for _, t in fs})
    fobs = dict(zip(texts, lib.run_go(["parse " + hx(t) for t in texts])))
    stats = dict(cases=len(built), loaded_by_name_from_cwd=len(cwd_lines), prefix_exact=0, positions_checked=0, exact_checked=0, untriggered=0, by_class={}, unparsable_files=0, labels=len(SEM_CASES))
    viol = 0

    def bad(what, label, fs, extra):
        nonlocal viol
        viol += 1
        if viol <= 4:
            res.violation("%s [case %s]" % (what, label), dict(kind="semantic-position", label=label, files=[[n, t] for n, t in fs],
                                                              go_case=cur[0], **extra))

    cur = [None]
    for (label, cls, fs, marker), line, o in zip(built, plines, pout):
        cur[0] = line
        try:
            j = json.loads(o)
        except ValueError:
            bad("harness did not answer: %s" % o[:200], label, fs, dict(case=line))
            continue
        msgs = [l[5:] for l in j.get("loads", []) if l.startswith("err: ")]
        for r in j.get("runs", []):
            msgs += r.get("errors", [])
        msgs += j.get("errors", [])
        msgs = list(dict.fromkeys(msgs))
        names = {n for n, _ in fs}
        stmts = {}
        for n, t in fs:
            f = parse_forest(fobs[t])
            if f is None:
                stats["unparsable_files"] += 1
            stmts[n] = f
        triggered = False
        for msg in msgs:
            mcls, detail = classify(msg)
            stats["by_class"][mcls] = stats["by_class"].get(mcls, 0) + 1
            if mcls == cls or (cls == "other"):
                triggered = True
            for m in LINECOL.finditer(msg):
                ln, cl = int(m.group(1)), int(m.group(2))
                stats["positions_checked"] += 1
                pre = msg[:m.start()]
                cands = [n for n in names if pre.endswith(n)]
                if not cands:
                    bad("error text has a line:col (%d:%d) that is not preceded by the name of a loaded file %r: %s"
                        % (ln, cl, sorted(names), msg[:300]), label, fs, dict(message=msg))
                    continue
                fn = max(cands, key=len)
                if m.start() - len(fn) == 0:
                    stats["prefix_exact"] += 1
                if stmts[fn] is None:
                    continue
                here = [k for k, l2, c2 in stmts[fn] if (l2, c2) == (ln, cl)]
                if not here:
                    bad("error position %s:%d:%d is not the start of any statement of that file: %s" % (fn, ln, cl, msg[:200]),
                        label, fs, dict(message=msg))
                    continue
                kw = here[0]
                # (c) the right kind of statement for the class of the message
                if mcls == "unknown-field":
                    parent_kw, field = detail
                    if kw != field:
                        if kw == parent_kw and field in KIND_FIELDS:
                            res.known("builder.kind-field-reported-at-parent", "%r -> %s" % (fs[0][1][:80], msg[:120]))
                            continue
                        bad("'unknown %s field: %s' is reported at a %r statement (%s:%d:%d), not at the unknown substatement"
                            % (parent_kw, field, kw, fn, ln, cl), label, fs, dict(message=msg))
                        continue
                elif mcls == "unknown-statement":
                    if kw != detail:
                        bad("'unknown statement: %s' is reported at a %r statement" % (detail, kw), label, fs, dict(message=msg))
                        continue
                elif mcls == "missing-required":
                    if kw != detail[0]:
                        bad("'missing required %s field: %s' is reported at a %r statement (%s:%d:%d), not at the %s that lacks it"
                            % (detail[0], detail[1], kw, fn, ln, cl, detail[0]), label, fs, dict(message=msg))
                        continue
                elif mcls in CLASS_KEYWORDS:
                    if kw not in CLASS_KEYWORDS[mcls]:
                        bad("a %s error is reported at a %r statement (%s:%d:%d): %s" % (mcls, kw, fn, ln, cl, msg[:160]), label, fs, dict(message=msg))
                        continue
                # (d) the single injected fault: the message starts with the position of the marked statement, name included
                if marker and mcls == cls and cls in EXACT_CLASSES and not label.startswith("type-deviation"):
                    if not msg.startswith("%s:%d:%d: " % marker):
                        bad("the %s error does not start with the position of the faulty statement %s:%d:%d: %s"
                            % (mcls, marker[0], marker[1], marker[2], msg[:300]), label, fs, dict(message=msg, expected="%s:%d:%d" % marker))
                        continue
                if marker and mcls == cls and cls in EXACT_CLASSES:
                    stats["exact_checked"] += 1
                    if (fn, ln, cl) != marker:
                        bad("the %s error names %s:%d:%d but the faulty statement stands at %s:%d:%d: %s"
                            % (mcls, fn, ln, cl, marker[0], marker[1], marker[2], msg[:160]), label, fs, dict(message=msg, expected="%s:%d:%d" % marker))
        if not triggered:
            stats["untriggered"] += 1
    stats["violations"] = viol
    return stats



# ====================================================================== family 4: chains / trees of typedefs over a faulty one
# Third sentence again, for the case the single-fault sets above hardly reach: the statement at fault stands inside a typedef
# that OTHER typedefs (and leaves) are based on, directly or through further typedefs, so the resolver meets the same broken
# typedef many times (once per user, in the order resolveTypedefs / ToEntry walk them: sorted by module name + node path).
# However often and in whatever order it is met, every file:line:col in every error of every step must be the start of a
# statement whose name or value is bad -- here exactly the marked statement(s); a `typedef` or a sound `type T;` statement
# further up the chain is not at fault.  Resolver errors carry no position in the Coq models, so this is an oracle on the
# implementation (harness command c16hist: loads, Process and ToEntry-without-Process steps on one Modules value).
CHAIN_FAULTS = [
    # (label, class, type part of the faulty typedef, sound typedef it restricts or None)
    ("unknown-type", "type", "@@type nosuch;", None),
    ("unknown-type-own-prefix", "type", "@@type {P}:nosuch;", None),
    ("unknown-prefix", "type", "@@type zz:t;", None),
    ("range-builtin", "range", 'type uint8 { @@range "1..300"; }', None),
    ("range-order", "range", 'type int32 { @@range "5..1"; }', None),
    ("range-syntax", "range", 'type int8 { @@range "1..x"; }', None),
    ("range-second-part", "range", 'type int8 { @@range "1..5 | 7..x"; }', None),
    ("length-order", "length", 'type string { @@length "5..1"; }', None),
    ("length-negative", "length", 'type binary { @@length "-1..2"; }', None),
    ("enum-duplicate", "enum", "type enumeration { enum a; @@enum a; }", None),
    ("enum-value-conflict", "enum", "type enumeration { enum a { value 1; } @@enum b { value 1; } }", None),
    ("enum-value-syntax", "enum", "type enumeration { enum z; @@enum a { value x; } }", None),
    ("bit-duplicate", "enum", "type bits { bit a; @@bit a; }", None),
    ("fraction-digits-missing", "type", "@@type decimal64;", None),
    ("fraction-digits-19", "type", "@@type decimal64 { fraction-digits 19; }", None),
    ("identityref-no-base", "type", "@@type identityref;", None),
    ("union-member", "type", "type union { type string; @@type nosuch; }", None),
    ("restrict-range", "range", 'type {BASE} { @@range "0..20"; }', 'type int8 { range "1..10"; }'),
    ("restrict-length", "length", 'type {BASE} { @@length "2..9"; }', 'type string { length "1..4"; }'),
    ("restrict-fraction-digits", "type", "@@type {BASE} { fraction-digits 3; }", "type decimal64 { fraction-digits 2; }"),
]
# how a typedef / leaf names the typedef it is based on ({T} with prefix where one is needed)
CHAIN_LINKS = ["type {T};", "type {T};", "type {T} { }", "type union { type string; type {T}; }", "type union { type {T}; type int8; }",
               "type union { type {T}; type {T}; }", "type union { type union { type {T}; } }"]
# sorted pools the typedef names are drawn from in random order: resolveTypedefs goes by module name + node path, so whether a
# user comes before or after the typedef it is based on is a matter of the names (upper case < lower case, t10 < t2, - < . < _)
CHAIN_NAME_POOLS = [["alpha", "beta", "delta", "epsilon", "gamma", "zeta"], ["t1", "t10", "t2", "t20", "t3", "t9"],
                    ["A", "B", "Z", "a", "b", "z"], ["a-b", "a.b", "a_b", "ab", "b", "b-"], ["c0", "d", "n0", "o", "zz0", "zzz"]]
CHAIN_OPS = ["P", "P", "P", "P,P", "E", "E,E", "E,P", "P,E", "P,E,P"]


def chain_noise(rnd, counter):
    counter[0] += 1
    r = rnd.random()
    if r < 0.45:
        return " "
    if r < 0.75:
        return rnd.choice(SEM_GAPS)
    return ' leaf zq%d { type string; description "é %d\n\t two\r\n   three"; }%s' % (counter[0], counter[0], rnd.choice(SEM_GAPS))


def gen_chain_case(rnd, counter, faults, k=None, perm=None, simple=False, pool=None):
    """one module set: a forest of typedefs, every root of it faulty in its own `type` statement (marked), every other typedef
    based on an earlier one; leaves / leaf-lists next to some of them; in one or two modules, at module level or nested.
    -> (label, files [(name, text)], markers {(name, line, col)}, ops)"""
    nroots = len(faults)
    k = k or rnd.choice([1, 2, 2, 3, 3, 4, 5])
    k = max(k, nroots)
    pool = pool or rnd.choice(CHAIN_NAME_POOLS)
    if perm is not None:
        names = [pool[i] for i in perm]
    elif k <= len(pool):
        names = rnd.sample(pool, k)
    else:
        names = rnd.sample(pool, len(pool)) + ["x%d" % i for i in range(k - len(pool))]
    chain = simple or rnd.random() < 0.5
    parent = [None] * nroots + [(i - 1 if chain and nroots == 1 else rnd.randrange(i)) for i in range(nroots, k)]
    two = (not simple) and rnd.random() < 0.35
    mods = rnd.choice([["a", "m"], ["m", "a"], ["b2", "a"], ["a", "b2"]])
    pfx = {m: rnd.choice(["%s", "p%s", "%s-x"]) % m for m in mods}           # own prefix of each module
    ipfx = rnd.choice(["%s", "i%s"]) % mods[0]                                # prefix mods[1] imports mods[0] under
    nestkw = [rnd.choice(["container", "container", "list", "grouping"]) for _ in range(3)]
    nestname = rnd.choice(["c%d", "n%d", "zz%d", "B%d"])
    fileof, level = [], []
    for i in range(k):
        p = parent[i]
        if p is None:
            fileof.append(0)
            level.append(0 if simple else rnd.choice([0, 0, 0, 1, 2]))
        elif fileof[p] == 0 and level[p] == 0 and two and rnd.random() < 0.6:
            fileof.append(1)
            level.append(rnd.choice([0, 0, 1, 2]))
        else:
            fileof.append(fileof[p])
            level.append(level[p] if simple else min(3, level[p] + rnd.choice([0, 0, 1])))
    used_files = sorted(set(fileof))

    def ref(i, frm):
        """how a statement in file frm names typedef i"""
        if fileof[i] != frm:
            return ipfx + ":" + names[i]
        return names[i] if rnd.random() < 0.7 else pfx[mods[frm]] + ":" + names[i]

    items = {}          # (file, level) -> statements
    for i in range(k):
        f, lv = fileof[i], level[i]
        if parent[i] is None:
            label, cls, tmpl, base = faults[i]
            bn = rnd.choice(["aa%d", "zy%d", "M%d"]) % i
            tpart = tmpl.replace("{P}", pfx[mods[f]]).replace("{BASE}", bn)
            if base is not None:
                items.setdefault((f, 0), []).append("typedef %s { %s }" % (bn, base))
        else:
            tpart = rnd.choice(CHAIN_LINKS).replace("{T}", ref(parent[i], f))
        extra = rnd.choice(["", "", 'description "é\n\ttwo"; ', "units x; "])
        tail = rnd.choice(["", "", ' reference "d";', " default 1;"]) if parent[i] is not None or "nosuch" in tpart else ""
        items.setdefault((f, lv), []).append("typedef %s { %s%s%s }" % (names[i], extra, tpart, tail))
        for u in range(0 if simple else rnd.choice([0, 0, 1, 1, 2, 3])):
            counter[0] += 1
            t = rnd.choice(CHAIN_LINKS).replace("{T}", ref(i, f))
            items[(f, lv)].append(rnd.choice(["leaf u%d { %s }", "leaf-list u%d { %s }", "leaf u%d { %s mandatory true; }",
                                              "container w%d { leaf x { %s } }"]) % (counter[0], t))
    files, markers = [], set()
    for f in used_files:
        maxlv = max(lv for (ff, lv) in items if ff == f)

        def body(lv):
            its = list(items.get((f, lv), []))
            rnd.shuffle(its)
            if lv < maxlv:
                inner = body(lv + 1)
                kw, nm = nestkw[lv], nestname % lv
                head = "key k; leaf k { type string; }" if kw == "list" else ""
                its.insert(rnd.randrange(len(its) + 1), "%s %s {%s%s%s}" % (kw, nm, chain_noise(rnd, counter), head, inner))
            return "".join(chain_noise(rnd, counter) + s for s in its) + chain_noise(rnd, counter)

        m = mods[f]
        imp = "import %s { prefix %s; }" % (mods[0], ipfx) if f == 1 else ""
        text = 'module %s {%snamespace "urn:%s"; prefix %s; %s%s}%s' % (m, rnd.choice(SEM_GAPS), m, pfx[m], imp, body(0),
                                                                       rnd.choice(["", "\n", "\r\n"]))
        files.append([m + ".yang", text])
    pat = "%s" if (simple or rnd.random() < 0.5) else rnd.choice(SEM_NAMES[1:])
    out = []
    for n, text in files:
        n = pat % n
        parts = text.split("@@")
        acc = parts[0]
        for part in parts[1:]:
            acc += "".join(rnd.choice(SEM_GAPS) for _ in range(rnd.choice([0, 0, 1, 1, 2, 3])))
            markers.add((n,) + linecol(acc, len(acc)))
            acc += part
        out.append((n, acc))
    order = list(range(len(out)))
    rnd.shuffle(order)
    ops = ",".join("L%d" % i for i in order) + "," + ("P" if simple else rnd.choice(CHAIN_OPS))
    label = "+".join(f[0] for f in faults) + ":k=%d%s%s" % (k, ":two-files" if len(out) > 1 else "", ":nested" if max(level) else "")
    return label, out, markers, ops


def chain_case_line(ops, files):
    return "c16hist %s %d %s" % (ops, len(files), " ".join("%s %s" % (hx(n), hx(t)) for n, t in files))


def check_chain_output(o, fs, markers, stmts):
    """-> (list of (what, message) complaints, number of positions checked, number of positions equal to a marker).
    stmts: file name -> statement list [(keyword, line, col)] or None"""
    bad, checked, hit = [], 0, 0
    try:
        j = json.loads(o)
    except ValueError:
        return [("harness did not answer: %s" % o[:200], "")], 0, 0
    names = {n for n, _ in fs}
    groups = [("load", [l[5:] for l in j.get("loads", []) if l.startswith("err: ")])]
    if groups[0][1]:
        # the generated modules are sound for the builder: the one fault is for the resolver
        bad.append(("Modules.Parse rejects a module of the set (the fault injected is a resolver fault)", groups[0][1][0]))
    groups += [("step %d (%s)" % (i + 1, {"P": "Process", "E": "ToEntry"}.get(st.get("op"), "?")), st.get("errors", []))
               for i, st in enumerate(j.get("steps", []))]
    for where, msgs in groups:
        for msg in msgs:
            mcls, _ = classify(msg)
            for m in LINECOL.finditer(msg):
                ln, cl = int(m.group(1)), int(m.group(2))
                checked += 1
                pre = msg[:m.start()]
                cands = [n for n in names if pre.endswith(n)]
                if not cands:
                    bad.append(("%s: line:col %d:%d is not preceded by the name of a loaded file %r" % (where, ln, cl, sorted(names)), msg))
                    continue
                fn = max(cands, key=len)
                if stmts.get(fn) is None:
                    continue
                here = [k for k, l2, c2 in stmts[fn] if (l2, c2) == (ln, cl)]
                if not here:
                    bad.append(("%s: error position %s:%d:%d is not the start of any statement of that file" % (where, fn, ln, cl), msg))
                    continue
                if (fn, ln, cl) in markers:
                    hit += 1
                    if mcls in CLASS_KEYWORDS and here[0] not in CLASS_KEYWORDS[mcls]:
                        bad.append(("%s: a %s error is reported at a %r statement (%s:%d:%d)" % (where, mcls, here[0], fn, ln, cl), msg))
                    continue
                bad.append(("%s: the error names %s:%d:%d, a %r statement that is not at fault; the only statement(s) whose name or value "
                            "is bad: %s" % (where, fn, ln, cl, here[0], ", ".join("%s:%d:%d" % mk for mk in sorted(markers))), msg))
    return bad, checked, hit


def run_typedef_chains(res, tier, rnd):
    counter = [0]
    built = []
    # systematic: every fault x every order of 2 and of 3 names (the chain root < user, user < root, every interleaving), at
    # module level, one Process
    for fault in CHAIN_FAULTS:
        for k in (2, 3):
            for perm in itertools.permutations(range(k)):
                built.append(gen_chain_case(rnd, counter, [fault], k=k, perm=perm, simple=True, pool=CHAIN_NAME_POOLS[0]))
    # chains of 1 .. 6 links under every name pool
    for pool in CHAIN_NAME_POOLS:
        for k in range(1, 7):
            built.append(gen_chain_case(rnd, counter, [rnd.choice(CHAIN_FAULTS)], k=k, perm=list(range(k)), simple=True, pool=pool))
            built.append(gen_chain_case(rnd, counter, [rnd.choice(CHAIN_FAULTS)], k=k, perm=list(range(k))[::-1], simple=True, pool=pool))
    # random forests: trees instead of chains, nesting, two modules, leaves, two faulty roots, histories of Process / ToEntry steps
    n = 700 if tier == "quick" else 12000
    for i in range(n):
        faults = [rnd.choice(CHAIN_FAULTS)] if i % 5 else [rnd.choice(CHAIN_FAULTS), rnd.choice(CHAIN_FAULTS)]
        built.append(gen_chain_case(rnd, counter, faults))
    lines = [chain_case_line(ops, fs) for _, fs, _, ops in built]
    out = lib.run_go(lines)
    texts = sorted({t for _, fs, _, _ in built for _, t in fs})
    fobs = dict(zip(texts, lib.run_go(["parse " + hx(t) for t in texts])))
    stats = dict(cases=len(built), positions_checked=0, positions_at_marked_statement=0, cases_with_positions=0, unparsable_files=0,
                 by_ops={}, by_links={}, two_files=0, nested=0, violations=0)
    for (label, fs, markers, ops), line, o in zip(built, lines, out):
        stmts = {}
        for nme, t in fs:
            stmts[nme] = parse_forest(fobs[t])
            if stmts[nme] is None:
                stats["unparsable_files"] += 1
        bad, checked, hit = check_chain_output(o, fs, markers, stmts)
        stats["positions_checked"] += checked
        stats["positions_at_marked_statement"] += hit
        stats["cases_with_positions"] += 1 if checked else 0
        op = ops.split(",", len(fs))[-1]
        stats["by_ops"][op] = stats["by_ops"].get(op, 0) + 1
        kk = re.search(r":k=(\d+)", label).group(1)
        stats["by_links"][kk] = stats["by_links"].get(kk, 0) + 1
        stats["two_files"] += 1 if len(fs) > 1 else 0
        stats["nested"] += 1 if ":nested" in label else 0
        if bad:
            stats["violations"] += 1
            if stats["violations"] <= 3:
                what, msg = bad[0]
                res.violation("typedef chain [%s, ops %s]: %s: %s" % (label, ops, what, msg[:300]),
                              dict(kind="typedef-chain", label=label, files=[[n2, t] for n2, t in fs], go_case=line,
                                   markers=[list(mk) for mk in sorted(markers)], message=msg, complaints=[w for w, _ in bad][:8]))
    return stats


POS = re.compile(r",(-?\d+),(-?\d+);")


def run(res, tier, seed, proof):
    cases, kinds = gen(tier, seed)
    go, ml, mism = lib.diff_cases(res, cases, corr_name="yang.Parse and the proved lexer/parser model (statement positions / error positions)")
    dist, errclasses = {}, {}
    npos = nerrpos = 0
    oof = 0
    for c, k, g, m in zip(cases, kinds, go, ml):
        o = g.split(" ", 1)[0]
        dist[k + ":" + o] = dist.get(k + ":" + o, 0) + 1
        if m == "model-out-of-fuel":
            oof += 1
            if oof <= 2:
                res.violation("model ran out of fuel (fuel bound of the model is not sufficient) on " + c,
                              dict(kind="model-out-of-fuel", case=c, impl=g, model=m))
        if o == "ok":
            npos += len(POS.findall(g))
        elif o == "err":
            ps = g.split(" ", 1)[1].split(",") if " " in g else []
            nerrpos += sum(1 for p in ps if ":" in p)
            key = "%d-errors%s" % (len(ps), "+toomany" if "toomany" in ps else "")
            errclasses[key] = errclasses.get(key, 0) + 1
    # invalid UTF-8: positions count one column per offending byte; texts compared after Go-style re-decoding of the hex fields
    ib = ["parse " + b.hex() for b in invalid_utf8_texts()]
    gi, mi = lib.run_go(ib), lib.run_ml(ib)
    ibad = 0
    for c, g, m in zip(ib, gi, mi):
        if canon_runes(g) != canon_runes(m):
            ibad += 1
            if ibad <= 3:
                res.violation("yang.Parse and the model disagree on a text with invalid UTF-8: %s impl=%s model=%s" % (c[:200], g[:200], m[:200]),
                              dict(kind="correspondence", case=c, impl=g, model=m))
    sem = run_semantic(res, tier, random.Random(seed + 1))
    longl = run_long_lines(res, tier)
    front = c16front.run_leg(res, tier, random.Random(seed + 2))
    chains = run_typedef_chains(res, tier, random.Random(seed + 3))
    distinct = len(set(cases))
    nontriv = len({c for c, g in zip(cases, go) if (g.startswith("ok (") or (g.startswith("err") and ":" in g))})
    pick = [i for i, k in enumerate(kinds) if k in ("well-formed", "fault:bad-escape", "fault:extra-close")]
    sample_idx = [pick[0], pick[len(pick) // 2], pick[-1]] if pick else []
    cov = dict(evaluations=len(cases), distinct_cases=distinct, distinct_nontrivial=nontriv,
               rule="every text up to length %d over {a ; { } \" ' \\ / * TAB LF CR e-acute}; random statement forests (keywords and "
                    "arguments with multi-byte runes, single/double-quoted and multi-line strings, '+' concatenations) rendered with "
                    "random gaps drawn from blanks, tabs, LF, CR LF, // and /* */ comments (incl. multi-line and comment ending at end "
                    "of line); single-fault mutants of these for %d fault kinds at random places; error-budget texts; fixed corpus. "
                    "non-trivial = at least one statement position or one printed error position compared.  Second family (oracle on the "
                    "implementation): %d single-semantic-fault module sets x layout-noise variants (unknown substatement, missing mandatory "
                    "substatement, unknown type / prefix, typedef cycle, fraction-digits, unknown grouping, grouping cycle, bad range / length, "
                    "enum / bit, missing augment target, duplicates, invalid config / max-elements / min-elements / ordered-by, identities, "
                    "missing import / include; one or several files); every file:line:col anywhere in a Modules.Parse or Process error must be "
                    "a statement start of a loaded file, of the right kind for the message, and for the classes the property lists exactly "
                    "the marked faulty statement" % (4 if tier == "quick" else 5, len(FAULTS), len(SEM_CASES)),
               mismatches=mism, model_out_of_fuel=oof, builder_errors_from_text=front, semantic_error_positions=sem, typedef_chain_error_positions=chains, long_lines=longl, invalid_utf8=dict(cases=len(ib), mismatches=ibad), statement_positions_compared=npos, error_positions_compared=nerrpos,
               distribution=dict(kind_by_outcome=dist, error_lists=errclasses),
               samples=[cases[i] for i in sample_idx], sample_observations=[go[i] for i in sample_idx])
    return cov, ["UTF-8 decoding (utf8.DecodeRuneInString; invalid byte => U+FFFD of width 1) is done by the harness as Go does it and "
                 "is modelled, not verified; the file name in a position is the path argument copied verbatim and is not modelled; "
                 "positions in errors from building/resolving modules (semantic errors) are statement positions covered by C03 and the "
                 "resolver properties, not by this check; positions in RESOLVER errors (unknown type / uses, bad range / length / enum ..., "
                 "incl. the typedef-chain family: a faulty typedef other typedefs and leaves are based on, resolved in every order, over "
                 "histories of Process and ToEntry steps) are outside the Coq models (resolver errors carry no position there): they are "
                 "decided by an oracle on the implementation that checks the property's text directly -- every file:line:col of every "
                 "error is a statement start of a loaded file and is (one of) the marked statement(s) whose name or value is bad"]


def replay(rep, res):
    if rep.get("kind") == "semantic-position":
        fs = [(n, t) for n, t in rep["files"]]
        tmp = tempfile.mkdtemp(prefix="c16cwd")
        o = lib.run_go([rep.get("go_case") or sem_case_line(fs)], cwd=tmp)[0]
        print("files:")
        for n, t in fs:
            print("  %s: %r" % (n, t))
            print("   statements:", parse_forest(lib.run_go(["parse " + hx(t)])[0]))
        print("impl :", o[:1500])
        print("was  :", rep.get("what"))
        return 1
    if rep.get("kind") == "typedef-chain":
        fs = [(n, t) for n, t in rep["files"]]
        o = lib.run_go([rep["go_case"]])[0]
        stmts = {}
        print("files:")
        for n, t in fs:
            print("  %s: %r" % (n, t))
            stmts[n] = parse_forest(lib.run_go(["parse " + hx(t)])[0])
        markers = {tuple(mk) for mk in rep.get("markers", [])}
        print("statement(s) at fault:", ", ".join("%s:%d:%d" % mk for mk in sorted(markers)))
        print("impl :", o[:2000])
        bad, checked, hit = check_chain_output(o, fs, markers, stmts)
        for what, msg in bad:
            print("WRONG:", what, "--", msg[:300])
        return 1 if bad else 0
    if rep.get("kind") == "front":
        return c16front.replay(rep)
    c = rep["case"]
    if rep.get("kind") == "long-line":
        g = lib.run_go([c])[0]
        print("text of %d bytes; impl: %s\nwant positions: %s" % (len(c) // 2, g[:400], rep.get("want")))
        return 1
    go, ml = lib.run_go([c])[0], lib.run_ml([c])[0]
    print("case :", c, "\nimpl :", go, "\nmodel:", ml)
    return 0 if go == ml else 1
