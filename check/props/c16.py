"""C16 — reported source positions are the true positions (generic parser part).

Correspondence: yang.Parse and the proved model (coq/Model/Lex.v, Parse.v) are run on the same texts and the
whole observation is compared: the statement forest with (line, column) of every statement, or the ordered
list of positions printed in the error text.  The theorems in coq/Properties/C16.v say the model's positions
are the true ones, so any disagreement is a position (or parse) the library gets wrong: a VIOLATION with the
text as replay."""
import itertools
import random
import re

import lib


def hx(s):
    if isinstance(s, str):
        s = s.encode("utf-8")
    return s.hex() if s else "-"


def case(s):
    return "parse " + hx(s)


# ------------------------------------------------------------------ layout noise
GAPS = [" ", "  ", "\t", " \t", "\t \t", "\n", "\r\n", "\n\t", "\n    ", " // c\n", "//\n", "// é \t x\r\n",
        "/**/", "/* x */", " /* a\n\tb */ ", "/* é\t*/", "/*/ */", "\n\n", " \r ", "/* * / */\t"]
KEYWORDS = ["a", "leaf", "é", "日本", "a-b:c", "x/y", "+", "+a", "a+", "/", "pattern", "0"]
UNQ_ARGS = ["b", "1..2", "é", "x:y", "a/b", "+", "//x"[2:], "a\\b"]
SQ_ARGS = ["'b'", "''", "' \t'", "'a\nb'", "'é\r\nq'", "'\"'", "'a // b'", "'/*'"]
DQ_ARGS = ['"b"', '""', '"a b"', '"a\n   b"', '"a \t\n\t  b"', '"\\n\\t\\"\\\\"', '"é\n\tü"', '"a\r\nb"', '"}"', '";{"',
           '"a\n\n  \n b"', '"//"', '"/* x"']


def gap(rnd, need):
    """a blank/comment run; need=True: must separate two unquoted tokens"""
    k = rnd.choice([0, 1, 1, 1, 2, 3]) if not need else rnd.choice([1, 1, 2, 3])
    g = "".join(rnd.choice(GAPS) for _ in range(k))
    if need and g.startswith("/"):
        g = " " + g
    return g


def gen_arg(rnd):
    r = rnd.random()
    if r < 0.2:
        return None
    if r < 0.45:
        return rnd.choice(UNQ_ARGS)
    pieces = [rnd.choice(SQ_ARGS + DQ_ARGS) for _ in range(rnd.choice([1, 1, 1, 2, 3]))]
    out = pieces[0]
    for p in pieces[1:]:
        g = gap(rnd, False)
        out += gap(rnd, False) + "+" + (" " + g if g.startswith("/") else g) + p  # "+/" would start an unquoted token
    return out


def gen_stmt(rnd, depth, toks):
    """append the tokens (strings) of one statement to toks"""
    toks.append(("kw", rnd.choice(KEYWORDS)))
    a = gen_arg(rnd)
    if a is not None:
        toks.append(("arg", a))
    if depth > 0 and rnd.random() < 0.4:
        toks.append(("open", "{"))
        for _ in range(rnd.choice([0, 1, 1, 2, 3])):
            gen_stmt(rnd, depth - 1, toks)
        toks.append(("close", "}"))
    else:
        toks.append(("semi", ";"))


def render(rnd, toks):
    out = [gap(rnd, False)]
    prev = None
    for kind, t in toks:
        need = prev in ("kw", "arg") and kind in ("kw", "arg") and not (prev == "arg" and False)
        if prev is not None:
            g = gap(rnd, need)
            # an unquoted token directly followed by a comment opener would glue to it
            if prev in ("kw", "arg") and g.startswith("/"):
                g = " " + g
            out.append(g)
        out.append(t)
        prev = kind
    out.append(gap(rnd, False))
    return "".join(out)


def gen_text(rnd):
    toks = []
    for _ in range(rnd.choice([1, 1, 2, 3])):
        gen_stmt(rnd, 3, toks)
    return toks


FAULTS = ["extra-close", "drop-semi", "quoted-keyword", "bad-escape", "open-dquote", "open-squote", "open-comment",
          "drop-open", "drop-close", "stray-quote-arg"]


def mutate(rnd, toks, fault):
    toks = list(toks)
    n = len(toks)
    i = rnd.randrange(n + 1)
    if fault == "extra-close":
        toks.insert(i, ("close", "}"))
    elif fault in ("drop-semi", "drop-open", "drop-close"):
        want = {"drop-semi": "semi", "drop-open": "open", "drop-close": "close"}[fault]
        idx = [j for j, (k, _) in enumerate(toks) if k == want]
        if idx:
            del toks[rnd.choice(idx)]
    elif fault == "quoted-keyword":
        idx = [j for j, (k, _) in enumerate(toks) if k == "kw"]
        j = rnd.choice(idx)
        toks[j] = ("arg", rnd.choice(["'k'", '"k"', '"é\n k"']))
    elif fault == "bad-escape":
        esc = rnd.choice(['"a\\qb"', '"\\q"', '"é\t\\x"', '"a\n \t\\é"', '"\\\n"', '"a\\', '"\\q\\w\\e"'])
        idx = [j for j, (k, _) in enumerate(toks) if k == "arg"]
        if idx:
            toks[rnd.choice(idx)] = ("arg", esc)
        else:
            toks.insert(1, ("arg", esc))
    elif fault == "open-dquote":
        toks.insert(i, ("arg", rnd.choice(['"', '"abc', '"a\n\tb'])))
    elif fault == "open-squote":
        toks.insert(i, ("arg", rnd.choice(["'", "'abc", "'a\n\tb"])))
    elif fault == "open-comment":
        toks.insert(i, ("cmt", rnd.choice(["/*", "/* a\n b", "/*/", "/* *"])))
    elif fault == "stray-quote-arg":
        toks.insert(i, ("arg", rnd.choice(["'x'", '"y"', "z"])))
    return toks


NOISE_ALPHABET = ["a", ";", "{", "}", '"', "'", "\\", "/", "*", "\t", "\n", "\r", "é"]


def gen(tier, seed):
    rnd = random.Random(seed)
    cases, kinds = [], []

    def add(kind, text):
        cases.append(case(text))
        kinds.append(kind)

    # every short text over an alphabet chosen for positions: tab, CR, LF, a two-byte rune, quotes, comments
    maxlen = 4 if tier == "quick" else 5
    for n in range(maxlen + 1):
        for tup in itertools.product(NOISE_ALPHABET, repeat=n):
            add("exhaustive", "".join(tup))
    # well-formed texts under layout noise
    nwf = 6000 if tier == "quick" else 120000
    for _ in range(nwf):
        add("well-formed", render(rnd, gen_text(rnd)))
    # single-fault mutants, each fault kind at random places (so: after tabs, multi-byte runes, comments, strings)
    nm = 1500 if tier == "quick" else 30000
    for f in FAULTS:
        for _ in range(nm):
            add("fault:" + f, render(rnd, mutate(rnd, gen_text(rnd), f)))
    # many errors in one text (error budget of 8, then "too many errors")
    for k in range(0, 14):
        add("budget", "a " + '"' + "\\q" * k + '";')
        add("budget", "".join("'x'\t" for _ in range(k)) + "}")
        add("budget", "\n".join("} é" for _ in range(k)))
        add("budget", "a " + " ".join('"\\q"' for _ in range(k)) + " /*")
    # a fixed corpus of the layouts the property text names
    for t in ["\ta b;", "\t\té b;", "é\té b;", "/* c */ a b;", "/* c\n */\ta b;", "// c\r\na b;\r\n\tc d;", "a 'x\ny' ; b c;",
              'a "x\n  y"\t; b c;', 'a "x\r\n  y"\r\n; b c;', "a\t{\n\tb\tc;\n\t}\n}", "a b\n\tc d;", "a b {\n  'k' v;\n}",
              'a "b\\\n";', 'a "\t\\q";', "a 'b", 'a\n\t"b', "a b; /* c", "a b; \t/*", "日本 語;\t日 本;", "a b;;", "{", "a {",
              "a { b; ", "a b }", "a b c;", "a 'b' 'c';", "a 'b' + ;", "a 'b' +", "a + + ;", "a\r b;\r c d;"]:
        add("corpus", t)
    return cases, kinds


POS = re.compile(r",(-?\d+),(-?\d+);")


def run(res, tier, seed, proof):
    cases, kinds = gen(tier, seed)
    go, ml, mism = lib.diff_cases(res, cases, corr_name="yang.Parse and the proved lexer/parser model (statement positions / error positions)")
    dist, errclasses = {}, {}
    npos = nerrpos = 0
    oof = 0
    for c, k, g, m in zip(cases, kinds, go, ml):
        o = g.split(" ", 1)[0]
        dist[k + ":" + o] = dist.get(k + ":" + o, 0) + 1
        if m == "model-out-of-fuel":
            oof += 1
            if oof <= 2:
                res.violation("model ran out of fuel (fuel bound of the model is not sufficient) on " + c,
                              dict(kind="model-out-of-fuel", case=c, impl=g, model=m))
        if o == "ok":
            npos += len(POS.findall(g))
        elif o == "err":
            ps = g.split(" ", 1)[1].split(",") if " " in g else []
            nerrpos += sum(1 for p in ps if ":" in p)
            key = "%d-errors%s" % (len(ps), "+toomany" if "toomany" in ps else "")
            errclasses[key] = errclasses.get(key, 0) + 1
    distinct = len(set(cases))
    nontriv = len({c for c, g in zip(cases, go) if (g.startswith("ok (") or (g.startswith("err") and ":" in g))})
    pick = [i for i, k in enumerate(kinds) if k in ("well-formed", "fault:bad-escape", "fault:extra-close")]
    sample_idx = [pick[0], pick[len(pick) // 2], pick[-1]] if pick else []
    cov = dict(evaluations=len(cases), distinct_cases=distinct, distinct_nontrivial=nontriv,
               rule="every text up to length %d over {a ; { } \" ' \\ / * TAB LF CR e-acute}; random statement forests (keywords and "
                    "arguments with multi-byte runes, single/double-quoted and multi-line strings, '+' concatenations) rendered with "
                    "random gaps drawn from blanks, tabs, LF, CR LF, // and /* */ comments (incl. multi-line and comment ending at end "
                    "of line); single-fault mutants of these for %d fault kinds at random places; error-budget texts; fixed corpus. "
                    "non-trivial = at least one statement position or one printed error position compared" % (4 if tier == "quick" else 5, len(FAULTS)),
               mismatches=mism, model_out_of_fuel=oof, statement_positions_compared=npos, error_positions_compared=nerrpos,
               distribution=dict(kind_by_outcome=dist, error_lists=errclasses),
               samples=[cases[i] for i in sample_idx], sample_observations=[go[i] for i in sample_idx])
    return cov, ["UTF-8 decoding (utf8.DecodeRuneInString; invalid byte => U+FFFD of width 1) is done by the harness as Go does it and "
                 "is modelled, not verified; the file name in a position is the path argument copied verbatim and is not modelled; "
                 "positions in errors from building/resolving modules (semantic errors) are statement positions covered by C03 and the "
                 "resolver properties, not by this check"]


def replay(rep, res):
    c = rep["case"]
    go, ml = lib.run_go([c])[0], lib.run_ml([c])[0]
    print("case :", c, "\nimpl :", go, "\nmodel:", ml)
    return 0 if go == ml else 1
