"""C15 — Number: print, parse, convert, compare."""
import itertools
import random

import lib
from props.numgrid import magnitudes, canon_numline, hexs, simple_run, P63, P64


def literals(rnd, n_random):
    digs = ["0", "1", "9", "10", "42", "255", str(P63 - 1), str(P63), str(P63 + 1), str(P64 - 1), str(P64), str(P64 + 1),
            "99999999999999999999", "123456789012345678901234567890", "00", "01", "007", "08", "010", "0777"]
    out = []
    for d in digs:
        for sign in ("", "-", "+"):
            for pad in (("", ""), (" ", ""), ("\t", " \n")):
                out.append(pad[0] + sign + d + pad[1])
    out += ["", " ", "+", "-", " - ", "--1", "+-1", "-+1", "1 2", "1.0", ".", "1.", "- 1", "1-", "١", "1\xa0"]
    for _ in range(n_random):
        k = rnd.randint(1, 21)
        s = "".join(rnd.choice("0123456789") for _ in range(k))
        if rnd.random() < 0.8:
            s = s.lstrip("0") or "0"
        out.append(rnd.choice(["", "-", "+"]) + s)
    return out


def dec_literals(rnd, n_random):
    ints = ["0", "1", "9", "12", "922337203685477580", "9223372036854775807", "9223372036854775808",
            "92233720368547758", "18446744073709551615", ""]
    out = []
    for i in ints:
        for f in [None, "", "0", "5", "05", "50", "7", "8", "807", "808", "000000000000000001", "0000000000000000001",
                  "123456789012345678", "999999999999999999"]:
            for sign in ("", "-", "+"):
                out.append(sign + i + ("" if f is None else "." + f))
    for k in (17, 18, 19, 20, 254, 255, 256, 257, 258, 511, 512):
        out.append("0." + "0" * (k - 1) + "1")
        out.append("-1." + "0" * k)
    out += ["", " ", "+", "-", ".", "-.", "1..2", "1.2.3", " 1.5 ", "1 .5", "1. 5", "1e3", "0x1.8"]
    for _ in range(n_random):
        a = "".join(rnd.choice("0123456789") for _ in range(rnd.randint(0, 20)))
        b = "".join(rnd.choice("0123456789") for _ in range(rnd.randint(0, 19)))
        a = a.lstrip("0") or ("0" if rnd.random() < 0.9 else "")
        out.append(rnd.choice(["", "-", "+"]) + a + (("." + b) if rnd.random() < 0.8 else ""))
    return out


def colliding(s1, f1):
    """all (s2, f2) != (s1, f1), f2 a uint8, with  s1 + str(f1) == s2 + str(f2)  (text followed by the decimal precision)"""
    key = s1 + str(f1)
    out = []
    for j in (1, 2, 3):
        if len(key) <= j:
            break
        s2, suf = key[:-j], key[-j:]
        if not suf.isdigit() or (len(suf) > 1 and suf[0] == "0") or int(suf) > 255:
            continue
        if (s2, int(suf)) != (s1, f1):
            out.append((s2, int(suf)))
    return out


def seq_case(pairs):
    return "parsedecseq " + " ".join("%s %d" % (hexs(s), fd) for s, fd in pairs)


def gen_seq(tier, seed):
    """histories of parses within one process: what a parse returns must not depend on earlier parses.  Targeted at
    pairs whose text followed by the precision read the same ("1",12 / "11",2), both orders; plus random histories
    over a pool in which such pairs (and plain repetitions at another precision) occur by chance"""
    rnd = random.Random(seed ^ 0x5E9)
    cases = []
    lits = ["1", "4", "-0.5", "1.5", "12", "-7", "0.25", "100", "3.", "+2", "0", "9.99", "-0", "123456789.5", "0.1", "11", "-1.51",
            "41", "0.51", "922337203685477580", "9223372036854775807", "-9223372036854775808", "7.000000000000000001"]
    fds = list(range(0, 20)) + [25, 100, 101, 118, 181, 255]
    uniq = 1000
    for L in lits:
        for f1 in fds:
            for variant in (0, 1):
                s1 = L
                if variant:      # the same shape with an integer part no other line uses (nothing carried over from other lines)
                    uniq += 1
                    sign = L[0] if L[0] in "+-" else ""
                    s1 = sign + str(uniq) + L[len(sign):]
                for s2, f2 in colliding(s1, f1):
                    cases.append(seq_case([(s1, f1), (s2, f2)]))
                    cases.append(seq_case([(s2, f2), (s1, f1)]))
                    cases.append(seq_case([(s1, f1), (s2, f2), (s1, f1), (s2, f2)]))
    pool_s = ["1", "11", "12", "1.1", "1.11", "1.12", "-1", "-11", "2", "21", "0.5", "0.51", "0.58", "4", "41", "1.5", "1.51", "7", "71", "718"]
    pool_f = [0, 1, 2, 5, 8, 10, 11, 12, 15, 18, 19, 21, 118]
    for _ in range(4000 if tier == "quick" else 60000):
        cases.append(seq_case([(rnd.choice(pool_s), rnd.choice(pool_f)) for _i in range(rnd.randint(2, 6))]))
    return cases


def gen_whole_bounds(tier, seed):
    """decimal64 range bounds WITHOUT a point, through parseChildRanges (the literal -> Number conversion of a range
    bound): whole numbers whose value scaled by 10^fd lies next to 2^63, next to every multiple of 2^64 the literal can
    reach, and far beyond; every fraction-digits 1..18; alone, as lower and as upper bound"""
    rnd = random.Random(seed ^ 0xB0D)
    cases = []
    for fd in range(1, 19):
        p = 10 ** fd
        parent = "%d:%d:1~%d:%d:0" % (P63, fd, P63 - 1, fd)
        bs = {0, 1, 9, 10, 18, 19, 20, 184, 185, 1844, 1845, 18446, 18447, P63 - 1, P63, P63 + 1, P64 - 1, P64, P63 // 10, P64 // 10}
        for q in (P63 // p, P64 // p):
            bs.update([q - 1, q, q + 1, q + 2])
        for k in (2, 3, 5, 7, 10, 100, 12345):
            q = k * P64 // p
            bs.update([q, q + 1])
        for j in range(0, 20):
            bs.update([10 ** j, 2 * 10 ** j, 184 * 10 ** j // 100, 185 * 10 ** j // 100])
        for _ in range(6 if tier == "quick" else 60):
            bs.add(rnd.randrange(P63))
            bs.add(rnd.randrange(P64 // p + 2) + P63 // p)
        for b in sorted(x for x in bs if 0 <= x <= P64):
            for sb in (str(b), "-" + str(b)):
                cases.append("ranges %s %s 1 %d" % (parent, hexs(sb), fd))
                if b < 0 or sb.startswith("-"):
                    cases.append("ranges %s %s 1 %d" % (parent, hexs(sb + "..0"), fd))
                    cases.append("ranges %s %s 1 %d" % (parent, hexs(sb + "..max"), fd))
                else:
                    cases.append("ranges %s %s 1 %d" % (parent, hexs("-1.." + sb), fd))
                    cases.append("ranges %s %s 1 %d" % (parent, hexs("min.." + sb), fd))
                    cases.append("ranges %s %s 1 %d" % (parent, hexs("0.5.." + sb), fd))
    return cases


def gen_rangeapi(tier, seed):
    """hand-built YangRange values whose bounds carry DIFFERENT fraction digits, through Less(i,j), IsSorted, Validate and
    Sort: the order is that of the denoted rationals whatever the representation"""
    from fractions import Fraction
    rnd = random.Random(seed ^ 0x4A6)
    nums = [(70, 1, 0), (125, 2, 0), (7, 0, 0), (1, 0, 0), (125, 2, 1), (5, 1, 1), (25, 2, 1), (0, 0, 0), (0, 3, 1), (15, 1, 0),
            (150, 2, 0), (2, 0, 0), (19, 1, 0), (21, 1, 0), (P63 - 1, 1, 0), (P63 - 1, 18, 0), (9223372036854775807, 0, 1),
            (1500000000000000001, 18, 0), (P64 - 1, 18, 0), (P64 - 1, 0, 0), (1, 18, 0), (1, 18, 1), (10, 0, 0), (99, 1, 0), (3, 0, 1)]

    def val(n):
        f = Fraction(n[0], 10 ** n[1])
        return -f if n[2] else f

    def tok(parts):
        return ",".join("%d:%d:%d~%d:%d:%d" % (a + b) for a, b in parts) if parts else "-"

    def ok(parts):      # no two differently written parts that denote the same pair of values (Sort is not stable)
        seen = {}
        for a, b in parts:
            k = (val(a), val(b))
            if seen.setdefault(k, (a, b)) != (a, b):
                return False
        return True
    cases = ["rangeapi -"]
    single = [(a, a) for a in nums]
    spans = [(a, b) for a in nums[:16] for b in nums[:16] if val(a) < val(b)]
    rnd.shuffle(spans)
    pool2 = single + spans[:40] + [(nums[0], nums[3]), (nums[1], nums[4])]          # the last two: max < min
    pool3 = single[:10] + spans[:8]
    for k, pool in ((1, pool2), (2, pool2), (3, pool3)):
        for parts in itertools.product(pool, repeat=k):
            if ok(parts):
                cases.append("rangeapi " + tok(parts))
    for _ in range(3000 if tier == "quick" else 60000):
        k = rnd.randint(2, 6)
        parts = []
        for _i in range(k):
            a, b = rnd.choice(nums), rnd.choice(nums)
            if val(a) > val(b) and rnd.random() < 0.9:
                a, b = b, a
            parts.append((a, b))
        if rnd.random() < 0.5:
            parts.sort(key=lambda p: (val(p[0]), val(p[1])))
        if ok(parts):
            cases.append("rangeapi " + tok(parts))
    return cases


def gen_stringpar(tier, seed):
    """several goroutines printing different numbers at the same time: each gets what it would get alone"""
    rnd = random.Random(seed ^ 0x57A)
    pool = [(P63 - 1, 1, 0), (31415926535, 10, 0), (P64 - 1, 18, 1), (1, 18, 0), (0, 1, 1), (123456789012345678, 9, 0), (5, 0, 1), (P64 - 1, 0, 0),
            (99999, 5, 0), (10 ** 18, 18, 1), (7, 3, 0), (42, 0, 0)]
    cases = []
    for _ in range(120 if tier == "quick" else 1500):
        k = rnd.randint(4, 8)
        cases.append("stringpar %d %s" % (rnd.choice([2000, 5000, 20000]), " ".join("%d:%d:%d" % rnd.choice(pool) for _i in range(k))))
    return cases


def gen(tier, seed):
    rnd = random.Random(seed)
    mags = magnitudes()
    extra = [rnd.randrange(P64) for _ in range(20 if tier == "quick" else 200)]
    fds_small = [0, 1, 2, 9, 17, 18]
    cases = []
    nums = [(v, fd, neg) for v in mags + extra for fd in range(19) for neg in (0, 1)]
    for v, fd, neg in nums:
        cases.append("int %d %d %d" % (v, fd, neg))
        cases.append("string %d %d %d" % (v, fd, neg))
        cases.append("roundtrip %d %d %d" % (v, fd, neg))
    # ordering: all pairs over a reduced grid, mixed fraction digits
    red = [(v, fd, neg) for v in mags[::2] + [P63, P64 - 1, 0] for fd in fds_small for neg in (0, 1)]
    if tier == "quick":
        rnd.shuffle(red)
        red = red[:260]
    else:
        red = red + [(rnd.randrange(P64), rnd.randrange(19), rnd.randrange(2)) for _ in range(300)]
    for a in red:
        for b in red:
            cases.append("less %d %d %d %d %d %d" % (a + b))
    # close pairs: same value expressed at different precisions, and neighbours
    for _ in range(3000 if tier == "quick" else 60000):
        fd1, fd2 = rnd.randrange(19), rnd.randrange(19)
        base = rnd.choice(mags + extra) % (10 ** rnd.randint(1, 19))
        v1 = base * 10 ** max(0, fd1 - min(fd1, fd2))
        v2 = base * 10 ** max(0, fd2 - min(fd1, fd2)) + rnd.choice([0, 0, 1, -1])
        if 0 <= v1 < P64 and 0 <= v2 < P64:
            cases.append("less %d %d %d %d %d %d" % (v1, fd1, rnd.randrange(2), v2, fd2, rnd.randrange(2)))
    for s in literals(rnd, 300 if tier == "quick" else 5000):
        cases.append("parseint " + hexs(s))
        for lo, hi in ((1, 18), (-(1 << 31), (1 << 31) - 1), (0, (1 << 32) - 1), (-P63, P63 - 1)):
            cases.append("asrangeint %s %d %d" % (hexs(s), lo, hi))
    for s in dec_literals(rnd, 300 if tier == "quick" else 5000):
        for fd in (0, 1, 2, 3, 17, 18, 19, 255):
            cases.append("parsedec %s %d" % (hexs(s), fd))
    cases += gen_seq(tier, seed)
    cases += gen_whole_bounds(tier, seed)
    cases += gen_rangeapi(tier, seed)
    cases += gen_stringpar(tier, seed)
    # the order in which a process meets the cases is random (fixed by the seed): nothing may be carried from one
    # call to the next
    rnd.shuffle(cases)
    return cases


def nontrivial(c):
    t = c.split()
    if t[0] == "less":
        return t[1] != t[4] or t[2] != t[5]
    if t[0] in ("parseint", "parsedec", "asrangeint"):
        return t[1] != "-"
    if t[0] == "parsedecseq":
        return len(t) > 3
    if t[0] == "ranges":
        return True
    if t[0] == "rangeapi":
        return "," in t[1]
    if t[0] == "stringpar":
        return True
    return t[1] != "0"


def run(res, tier, seed, proof):
    cases = gen(tier, seed)
    go, ml, mism, skipped = simple_run(lib, res, cases, canon=canon_numline)
    kinds = {}
    outs = {}
    for c, g in zip(cases, go):
        k = c.split()[0]
        kinds[k] = kinds.get(k, 0) + 1
        o = k + ":" + g.split()[0]
        outs[o] = outs.get(o, 0) + 1
    cov = dict(evaluations=len(cases), distinct_nontrivial=len({c for c in cases if nontrivial(c)}),
               rule="boundary grid of magnitudes {0,1,9,10,10^k+-1,2^k+-1,2^63-1..2^63+1,2^64-1,..} x sign x fraction-digits 0..18 for "
                    "Int/String/round-trip; all pairs of a reduced grid plus close pairs at mixed precision for Less/Equal; literal "
                    "streams (boundaries around 2^63/2^64, signs, blanks, leading zeros, 17..512 fraction digits, malformed) for "
                    "ParseInt/ParseDecimal/asRangeInt; histories of 2-6 ParseDecimal calls in one process (parsedecseq), exhaustively the "
                    "pairs (text, precision) whose concatenations text+precision coincide for 23 literals x 26 precisions in both orders, "
                    "and random histories over a pool where such pairs and repeated texts at other precisions occur; decimal64 range bounds written without a point through "
                    "parseChildRanges at every fraction-digits 1..18: whole numbers whose scaled value lies next to 2^63, next to "
                    "multiples of 2^64 (18/19/20, 184/185, 1844/1845, ..., k*2^64/10^fd), powers of ten, +-2^63, 2^64, alone and as "
                    "lower/upper bound; hand-built YangRange values of 1-6 parts whose bounds carry different "
                    "fraction digits (25 numbers incl. 7.0/1.25, -0.5/-0.25, -0, 2^63-1 at fd 0/1/18, 2^64-1) through Less(i,j) for all "
                    "pairs, IsSorted, Validate, Sort and Validate of the sorted list (exhaustive for 1-2 parts over 67 parts, 3 parts over 18; "
                    "random); 4-8 goroutines printing different numbers at the same time (String), each compared with the model; "
                    "all cases are fed "
                    "to the processes in a seeded random order; non-trivial = operands differ / literal non-empty / magnitude non-zero "
                    "/ history of at least two calls",
               mismatches=mism, skipped_unmodelled=skipped, distribution=dict(commands=kinds, impl_outcomes=outs),
               samples=[cases[7], cases[len(cases) // 2], cases[-5]], sample_observations=[go[7], go[len(cases) // 2], go[-5]])
    return cov, ["strconv.ParseUint(base 0)/ParseInt(base 10)/FormatUint and strings.TrimSpace behave as modelled; literals "
                 "containing ASCII letters or '_' (hex, octal 0o, binary, digit separators) are outside the model and skipped; "
                 "the functions are modelled as pure functions: a history of calls is compared call by call with the model applied to "
                 "each call alone"]


def replay(rep, res):
    c = rep["case"]
    go, ml = lib.run_go([c])[0], lib.run_ml([c])[0]
    print("case :", c, "\nimpl :", go, "\nmodel:", ml)
    return 0 if canon_numline(go) == canon_numline(ml) else 1
