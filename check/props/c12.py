"""C12 — config inheritance and namespace attribution follow the instantiated tree.

Per generated module set (check/props/schema_gen.py, feature sets, and `hook_schemas`: childless extension points of a
grouping used in several config contexts with augments by different modules into single instances) these legs:
  tie     the implementation's dump (every node with namespace, read-only flag and instantiating module computed by
          Entry.Namespace / ReadOnly / InstantiatingModule) must equal, character for character, the dump of the
          extracted model (Schema.Process + Namespace / ReadOnly / InstantiatingModule; cmd `resolve`).
  oracle  an independent source-level oracle (below, written against the property text, using neither the
          implementation nor the model): the abstract schema is expanded -- uses inlined with lexical grouping
          lookup, submodule bodies merged into their owner, augments grafted by path, shorthand choice members
          wrapped into cases, rpc/action input/output -- and every node gets
            ns  = namespace of the module whose text placed it (user of a grouping, augmenting module, owner of a
                  submodule),
            ro  = some node on the path is an rpc/action output, or the last explicit config on the path is false,
            instantiating module = the module with that namespace.
          Every node of the implementation's dump is compared with it.
  spec    the extracted reference semantics of Spec/C12.v (ro_text = the wording, proved equal to the model's
          ReadOnly) evaluated on the (kind, config) path of every node of the implementation's dump: ReadOnly() must
          equal it.  The pinned upward walk (ro_up_pinned) is evaluated alongside; nodes on which it differs from the
          wording (`config true` below an output, D58, fixed by c376f44) are counted in the evidence.
  print   (implementation, harness/go/c12.go print12) Entry.Print is started at EVERY entry of every tree, rpc/action
          input and output entries included; the RO:/rw: marker of every printed line must be the read-only flag of that
          node.
  history (implementation) for sets with submodules: everything except the modules that own submodules is loaded and
          processed, then the owners are loaded and everything is processed again; the final dump must be the batch dump.
  bare    (generator, `sub_unprefixed_schemas`; tie + oracle) augment and deviation paths WITHOUT a prefix on the first step
          written in a module, its submodules and a nested submodule, for every combination of writer x text defining the
          first step x spelling of the other steps: what a submodule writes lands in the tree of its module (C12-v).
  revisions (`revision_schemas`, `revision_check`) one to three loaded revisions of the augmenting module, of its submodule
          and of the augmented module, imports / includes pinned by revision-date or not, every revision with 0..2
          augments of its own, chains through what an old revision placed: outside Model/Schema.v, so (i) the oracle
          checks every tree of the implementation (one per loaded revision) directly -- all revisions of a module are ONE
          module for InstantiatingModule -- and (ii) the model runs on the set renamed to distinct names (`rev_rename`) and
          its forest must equal the implementation's trees with the instantiating-module column projected away where the
          renaming makes a namespace ambiguous (C12-w).
Both departures found while building this check are fixed in /repo (D58 c376f44; D59 20ac024: the implicit case around a
shorthand member grafted by another module's augment reported the augmented module's namespace); a recurrence is a
violation.
"""
import random

import lib
from props import schema_gen as sg


class Skip(Exception):
    pass


# ------------------------------------------------------------------ the source-level oracle
class N:
    __slots__ = ("name", "kind", "cfg", "ch", "inp", "out", "ns", "implicit", "member")

    def __init__(self, name, kind, cfg, ns):
        self.name, self.kind, self.cfg, self.ns = name, kind, cfg, ns
        self.ch, self.inp, self.out, self.implicit, self.member = {}, None, None, False, False


def owner_of(byname, m):
    return m if m["belongs"] is None else byname.get(m["belongs"])


def includes_of(byname, m, seen=None):
    seen = set() if seen is None else seen
    out = []
    for sn in m["includes"]:
        if sn in seen or sn not in byname:
            continue
        seen.add(sn)
        out.append(byname[sn])
        out += includes_of(byname, byname[sn], seen)
    return out


def find_grouping(byname, ctx, scopes, ref):
    """lexical lookup of a grouping reference written in module ctx inside the statement lists scopes (innermost
    first, the module body last) -> (defining module, scopes at the definition, body)"""
    pfx, _, name = ref.rpartition(":") if ":" in ref else ("", "", ref)
    if pfx in ("", ctx["prefix"]):
        for i, sc in enumerate(scopes):
            for n in sc:
                if n[0] == "grouping" and n[2] == name:
                    return ctx, scopes[i:], n[3]
        for x in includes_of(byname, ctx):
            for n in x["body"]:
                if n[0] == "grouping" and n[2] == name:
                    return x, [x["body"]], n[3]
        return None
    for p, mn in ctx["imports"]:
        if p == pfx and mn in byname:
            t = byname[mn]
            for x in [t] + includes_of(byname, t):
                for n in x["body"]:
                    if n[0] == "grouping" and n[2] == name:
                        return x, [x["body"]], n[3]
            return None
    return None


def expand(byname, ctx, scopes, body, ns, depth=0):
    """nodes the statements of `body` (written in module ctx, enclosed by `scopes`) place in the tree"""
    if depth > 40:
        raise Skip("depth")
    out = []
    inner = [body] + scopes
    for n in body:
        k = n[0]
        if k == "grouping":
            continue
        if k == "uses":
            g = find_grouping(byname, ctx, inner, n[1])
            if g is None:
                raise Skip("unresolved uses")
            gm, gsc, gb = g
            # gsc[0] is the statement list that DECLARES the grouping; its own body is one level further in.
            # The namespace stays the user's: the grouping's text is placed by the uses statement.
            out += expand(byname, gm, gsc, gb, ns, depth + 1)
        elif k == "leaf":
            out.append(N(n[1], "Leaf", n[3], ns))
        elif k == "leaflist":
            out.append(N(n[1], "Leaf", n[3], ns))
        elif k == "any":
            out.append(N(n[2], "AnyXML" if n[1] else "AnyData", n[3], ns))
        elif k in ("container", "list", "notification", "case", "choice"):
            cfg = {"container": 2, "list": 3, "choice": 2}.get(k)
            x = N(n[1], {"container": "Directory", "list": "Directory", "notification": "Notification", "case": "Case",
                         "choice": "Choice"}[k], n[cfg] if cfg is not None else None, ns)
            for c in expand(byname, ctx, inner, n[-1], ns, depth + 1):
                add(x, c)
                if k == "choice" and c.kind != "Case":
                    c.member = True
            out.append(x)
        elif k == "rpc":
            x = N(n[2], "Directory", None, ns)
            x.kind = "rpc"
            for io, b in (("inp", n[3]), ("out", n[4])):
                if b is not None:
                    y = N("input" if io == "inp" else "output", "Input" if io == "inp" else "Output", None, ns)
                    for c in expand(byname, ctx, inner, b, ns, depth + 1):
                        add(y, c)
                    setattr(x, io, y)
            out.append(x)
        else:
            raise Skip("statement " + k)
    return out


def add(parent, c):
    if c.name in parent.ch:
        raise Skip("duplicate " + c.name)
    parent.ch[c.name] = c


def build(schema):
    """expected trees: {module name: N}"""
    byname = {m["name"]: m for m in schema}
    trees = {}
    for m in schema:
        if m["belongs"] is not None:
            continue
        root = N(m["name"], "Directory", None, m["ns"])
        for x in [m] + includes_of(byname, m):
            for c in expand(byname, x, [], x["body"], m["ns"]):
                add(root, c)
        trees[m["name"]] = root
    pending = []
    for a in schema:
        o = owner_of(byname, a)
        for path, body in a["augments"]:
            pending.append((a, o, path, body))

    def target(a, path, wrapped):
        parts = path.split("/")
        if parts[0] != "" or len(parts) < 2:
            raise Skip("relative augment")
        pfx = parts[1].split(":")[0] if ":" in parts[1] else ""
        if pfx in ("", a["prefix"]):
            t = owner_of(byname, a)
        else:
            t = None
            for p, mn in a["imports"]:
                if p == pfx:
                    t = owner_of(byname, byname[mn]) if mn in byname else None
                    break
        if t is None or t["name"] not in trees:
            return None
        cur = trees[t["name"]]
        for part in parts[1:]:
            name = part.split(":", 1)[1] if ":" in part else part
            if cur.kind == "rpc":
                if name == "input":
                    if cur.inp is None:
                        cur.inp = N("input", "Input", None, None)      # no text of its own: the rpc's namespace
                    cur = cur.inp
                elif name == "output":
                    if cur.out is None:
                        cur.out = N("output", "Output", None, None)
                    cur = cur.out
                else:
                    return None
            else:
                cur = cur.ch.get(name)
                if cur is None:
                    return None
        return cur

    def sweep(wrapped):
        nonlocal pending
        progress = True
        while progress and pending:
            progress = False
            rest = []
            for a, o, path, body in pending:
                t = target(a, path, wrapped)
                if t is None or t.kind in ("Leaf", "AnyData", "AnyXML"):
                    rest.append((a, o, path, body))
                    continue
                for c in expand(byname, a, [a["body"]], body, o["ns"]):
                    add(t, c)
                    if t.kind == "Choice" and c.kind != "Case":
                        c.member = True
                progress = True
            pending = rest
    sweep(False)

    def wrap(x):
        if x.kind == "Choice":
            for k, c in list(x.ch.items()):
                if c.kind != "Case":
                    w = N(c.name, "Case", None, c.ns)       # placed by the text that placed the member
                    w.implicit = True
                    w.ch[c.name] = c
                    x.ch[k] = w
        for c in x.ch.values():
            wrap(c)
        for io in (x.inp, x.out):
            if io is not None:
                wrap(io)
    while True:                       # rounds: an augment path may lead through a case that the wrapping inserts
        for r in trees.values():
            wrap(r)
        before = len(pending)
        if not pending:
            break
        sweep(True)
        if len(pending) == before:
            break
    for r in trees.values():
        wrap(r)
    if pending:
        raise Skip("augment without target")
    return trees


def expectations(schema, trees, base=lambda n: n):
    """{(module, path tuple): dict(ns, ro, inst, implicit, kind, kids)}; path steps are names, '<input>', '<output>'.
    base: tree key -> module name (several loaded revisions of one module are several trees of ONE module)"""
    nsmod = {}
    for m in schema:
        if m["belongs"] is None and base(m["name"]) not in nsmod.setdefault(m["ns"], []):
            nsmod[m["ns"]].append(base(m["name"]))
    out = {}

    def go(mn, x, path, ns_inh, in_out, last):
        ns = x.ns if x.ns is not None else ns_inh
        if x.kind == "Output":
            in_out = True
        if x.cfg is not None:
            last = x.cfg
        ro = in_out or last is False
        mods = nsmod.get(ns, [])
        out[(mn, path)] = dict(ns=ns, ro=ro, inst=mods[0] if len(mods) == 1 else "ERR",
                               implicit=x.implicit, kind="Directory" if x.kind == "rpc" else x.kind,
                               kids=sorted(x.ch) + (["<input>"] if x.inp else []) + (["<output>"] if x.out else []))
        for c in x.ch.values():
            go(mn, c, path + (c.name,), ns, in_out, last)
        if x.inp is not None:
            go(mn, x.inp, path + ("<input>",), ns, in_out, last)
        if x.out is not None:
            go(mn, x.out, path + ("<output>",), ns, in_out, last)
    for mn, r in trees.items():
        go(mn, r, (), r.ns, False, None)
    return out


def dump_nodes(run):
    out = {}

    def go(mn, n, path, parent_ns):
        out[(mn, path)] = dict(ns=n["ns"], ro=n["ro"], inst="ERR" if n["instmod"] == "ERR" or n["instmod"].startswith("PANIC") else n["instmod"],
                               kind=n["kind"], parent_ns=parent_ns,
                               kids=sorted([c["name"] for c in n.get("children") or []]) +
                               (["<input>"] if n.get("input") else []) + (["<output>"] if n.get("output") else []))
        for c in n.get("children") or []:
            go(mn, c, path + (c["name"],), n["ns"])
        if n.get("input"):
            go(mn, n["input"], path + ("<input>",), n["ns"])
        if n.get("output"):
            go(mn, n["output"], path + ("<output>",), n["ns"])
    for m in run["modules"]:
        if not m["sub"]:
            go(m["name"], m["tree"], (), None)
    return out


def spec_cases(run):
    """for every node of the dump: the ro12 line of its path and the implementation's flag"""
    lines, flags, where = [], [], []

    def go(mn, n, toks, path):
        toks = toks + [n["kind"], n["config"]]
        lines.append("ro12 " + " ".join(toks))
        flags.append(n["ro"])
        where.append((mn, path))
        for c in n.get("children") or []:
            go(mn, c, toks, path + "/" + c["name"])
        for io in ("input", "output"):
            if n.get(io):
                go(mn, n[io], toks, path + "/" + io)
    for m in run["modules"]:
        if not m["sub"]:
            go(m["name"], m["tree"], [], "")
    return lines, flags, where


def spec_check(res, work, stats):
    """the extracted reference semantics (Spec/C12.v: ro_up, ro_text, ntbo) on the implementation's observations"""
    lines, meta = [], []
    for sc, run in work:
        ls, fl, wh = spec_cases(run)
        lines += ls
        meta += [(sc, f, w) for f, w in zip(fl, wh)]
    outs = lib.run_ml(lines)
    bad = 0
    for (sc, flag, where), o in zip(meta, outs):
        t = o.split(" ")
        if len(t) != 3:
            res.violation("ro12 failed: %s" % o[:200], dict(kind="spec", schema=sc))
            return
        up, text, ok = (x == "1" for x in t)
        stats["spec_nodes"] += 1
        if up != text:
            stats["pinned_walk_differs"] += 1
        if not ok:
            stats["config_true_below_output_nodes"] += 1
        if flag != text and bad < 3:
            bad += 1
            res.violation("ReadOnly() of %s in %s is %s, the property's wording (ro_text) gives %s" % (where[1], where[0], flag, text),
                          dict(kind="spec", schema=sc, node=list(where)))


def print_check(res, work, stats):
    """Entry.Print started at EVERY entry (rpc/action input and output entries included): the RO:/rw: marker of every
    printed line must be the read-only flag of that node (the dump's flag, which the tie compares with the model's
    ReadOnly and the spec leg with ro_text)"""
    lines = []
    for sc, _ in work:
        toks = ["print12", "-", str(len(sc))]
        for m in sc:
            toks += [sg.hx(m["name"] + ".yang"), sg.hx(sg.render_module(m))]
        lines.append(" ".join(toks))
    outs = lib.run_go(lines)
    import json
    for (sc, run), o in zip(work, outs):
        rep = dict(kind="print", schema=sc)
        if not o.startswith("{"):
            res.violation("print12 crashed on the implementation: %s" % o[:300], rep)
            continue
        j = json.loads(o)
        if j["runs"][-1]["errors"]:
            res.violation("print12: a module set that processed cleanly does not any more", rep)
            continue
        want = {}

        def go(n, pos):
            marks = "R" if n["ro"] else "w"
            for c in sorted(n.get("children") or [], key=lambda c: c["name"].encode()):
                marks += go(c, pos + "/C" + c["name"].encode().hex())
            want[pos] = marks
            if n.get("input"):
                go(n["input"], pos + "/I")
            if n.get("output"):
                go(n["output"], pos + "/O")
            return marks
        for m in run["modules"]:
            if not m["sub"]:
                go(m["tree"], sg.hx(m["name"]))
        got = dict(p.split("|", 1) for p in j["prints"])
        bad = 0
        for pos in sorted(want):
            stats["print_starts"] += 1
            stats["print_lines"] += len(want[pos])
            if got.get(pos) != want[pos] and bad < 2:
                bad += 1
                res.violation("Print started at %s marks its lines %s, ReadOnly() of those nodes gives %s (R = read-only, w = read-write)"
                              % (pos, got.get(pos), want[pos]), dict(rep, start=pos, got=got.get(pos), want=want[pos]))


def history_check(res, work, stats):
    """submodules first: every text except the modules that own submodules is loaded and processed (errors expected:
    the submodules' modules are missing), then the owners are loaded and everything is processed again; the result
    must be the batch result (dump incl. namespace, read-only flag, instantiating module of every node)"""
    cases, sel = [], []
    for sc, canon in work:
        owners = {m["belongs"] for m in sc if m["belongs"] is not None}
        if not owners:
            continue
        first = [i for i, m in enumerate(sc) if m["name"] not in owners]
        rest = [i for i, m in enumerate(sc) if m["name"] in owners]
        ops = ",".join(["L%d" % i for i in first] + ["P"] + ["L%d" % i for i in rest] + ["P"])
        cases.append(sg.go_case(sc, ops=ops))
        sel.append((sc, canon, ops))
    outs = lib.run_go(cases)
    bad = 0
    for (sc, canon, ops), o in zip(sel, outs):
        st, c2, _ = sg.canon_go(o)
        stats["history_sets"] += 1
        if (st != "ok" or c2 != canon) and bad < 3:
            bad += 1
            res.violation("submodules loaded and processed before their modules (%s): the final dump differs from the batch "
                          "dump: %s vs %s" % (ops, (c2 or st)[:200], canon[:200]), dict(kind="history", schema=sc, ops=ops, impl=c2, batch=canon))


def oracle_check(res, schema, run, stats, base=lambda n: n, rep=None):
    try:
        trees = build(schema)
    except Skip as e:
        stats["oracle_skipped"][str(e)] = stats["oracle_skipped"].get(str(e), 0) + 1
        return
    exp = expectations(schema, trees, base)
    got = dump_nodes(run)
    rep = rep or dict(kind="oracle", schema=schema)
    if set(exp) != set(got):
        only_e = sorted(set(exp) - set(got))[:3]
        only_g = sorted(set(got) - set(exp))[:3]
        res.violation("the instantiated tree differs from the source-level expansion: expected only %s, implementation only %s"
                      % (only_e, only_g), rep)
        return
    stats["oracle_sets"] += 1
    bad = 0
    for key in sorted(exp):
        e, g = exp[key], got[key]
        stats["oracle_nodes"] += 1
        if e["ns"] != trees[key[0]].ns:
            stats["foreign_ns_nodes"] += 1
        if e["ro"]:
            stats["ro_nodes"] += 1
        if (e["ns"], e["ro"], e["inst"]) == (g["ns"], g["ro"], g["inst"]):
            continue
        bad += 1
        if bad <= 2:
            res.violation("node /%s of module %s: the property gives namespace %r, %s, instantiating module %r; the "
                          "implementation reports %r, %s, %r" % ("/".join(key[1]), key[0], e["ns"], "read-only" if e["ro"] else "read-write",
                                                                 e["inst"], g["ns"], "read-only" if g["ro"] else "read-write", g["inst"]),
                          dict(rep, node=[key[0]] + list(key[1]), expected=e, got=g))


# ------------------------------------------------------------------ module sets
def _m(name, prefix, ns, **kw):
    d = dict(name=name, prefix=prefix, ns=ns, belongs=None, imports=[], includes=[], body=[], augments=[], deviations=[])
    d.update(kw)
    return d


def _lf(n, cfg=None):
    return ("leaf", n, "string", cfg, None, None, None)


def feature_schemas():
    out = []
    g = _m("g", "g", "urn:g", body=[("grouping", 1, "gr", [("container", "gc", False, [_lf("gl"), _lf("gt", True),
                                                                                    ("container", "deep", None, [_lf("dl")])]),
                                                           ("choice", "gch", None, None, None, [_lf("ga", False), _lf("gb")])])])
    a = _m("a", "a", "urn:a", imports=[("g", "g")], includes=["as1"], body=[
        ("container", "c", None, [("uses", "g:gr"), _lf("l")]),
        ("container", "ro", False, [_lf("x"), ("container", "rw", True, [_lf("y"), ("list", "li", "k", None, None, None, [_lf("k"), _lf("z", False)])])]),
        ("choice", "ch", None, None, None, [_lf("sh", False), ("case", "cs", [_lf("x", False)])]),
        ("rpc", False, "r", [_lf("i", False), _lf("j")], [_lf("o"), ("container", "oc", None, [_lf("p", False)])]),
        ("rpc", False, "r2", None, None),
        ("container", "acts", False, [("rpc", True, "act", [_lf("ai")], [_lf("ao")])]),
        ("notification", "nt", [_lf("n"), _lf("nf", False)])])
    as1 = _m("as1", "a", "", belongs="a", imports=[("g", "g")], body=[("container", "sc", True, [_lf("sl"), ("uses", "g:gr")])],
             augments=[("/a:c", [_lf("fs")]), ("/a:ro", [_lf("fr")])])
    b = _m("b", "b", "urn:b", imports=[("xa", "a"), ("g", "g")], augments=[
        ("/xa:c/xa:gc", [("container", "bg", None, [_lf("bl"), ("uses", "g:gr")])]),
        ("/xa:ch", [_lf("ag")]), ("/xa:ch", [("case", "bcs", [_lf("bx")])]), ("/xa:ch/xa:cs", [_lf("incase")]),
        ("/xa:r/xa:input", [_lf("bi")]), ("/xa:r/xa:output", [_lf("bo", False)]), ("/xa:r2/xa:input", [_lf("lazy")]),
        ("/xa:acts/xa:act/xa:output", [_lf("bao")]), ("/xa:ro/xa:rw", [_lf("brw")]), ("/xa:sc", [_lf("into-sub")]),
        ("/xa:nt", [_lf("bn")]), ("/xa:c/xa:gc/xa:bg", [_lf("chain")])])
    out.append([g, a, as1, b])
    # config true below an output (D58) and a grafted shorthand choice member (D59)
    out.append([_m("o", "o", "urn:o", body=[("rpc", False, "r", None, [_lf("x", True), ("container", "c", True, [_lf("y")]), _lf("z")])])])
    out.append([_m("a", "a", "urn:a", body=[("choice", "ch", None, None, None, [_lf("l")])]),
                _m("b", "b", "urn:b", imports=[("a", "a")], augments=[("/a:ch", [_lf("x")])])])
    # an empty extension point of a grouping used read-write, config false and in rpc input/output; three modules each
    # augment ONE instance
    out.append([_m("a", "a", "urn:a", body=[("grouping", 1, "ext", [("container", "hook", None, [])]),
                                            ("container", "cfg", None, [("uses", "ext"), _lf("name")]),
                                            ("container", "state", False, [("uses", "ext"), _lf("name")]),
                                            ("rpc", False, "run", [("uses", "ext")], [("uses", "ext")])]),
                _m("b", "b", "urn:b", imports=[("a", "a")], augments=[("/a:state/a:hook", [_lf("counters")])]),
                _m("c", "c", "urn:c", imports=[("a", "a")], augments=[("/a:cfg/a:hook", [("container", "knobs", None, [_lf("knob")])])]),
                _m("d", "d", "urn:d", imports=[("a", "a")], augments=[("/a:run/a:output/a:hook", [_lf("result")])])])
    # a submodule that augments another module's tree (and its own module's), written with uses of its module's grouping
    out.append([_m("t", "t", "urn:t", body=[("container", "c", None, [_lf("n")]), ("choice", "tch", None, None, None, [_lf("tm")])]),
                _m("m", "m", "urn:m", includes=["ms1"], body=[("container", "own", None, [_lf("o")]),
                                                              ("grouping", 3, "mg", [_lf("gl", False)])]),
                _m("ms1", "m", "", belongs="m", imports=[("t", "t")],
                   augments=[("/t:c", [_lf("fromsub"), ("container", "subc", False, [_lf("deep")])]),
                             ("/t:tch", [_lf("subm")]), ("/m:own", [_lf("intoown")])])])
    # two modules with one namespace: InstantiatingModule fails for both trees
    out.append([_m("p", "p", "urn:same", body=[_lf("x")]), _m("q", "q", "urn:same", body=[_lf("y")])])
    return out


def hook_schemas(rnd, n):
    """childless extension points (container, list, case, rpc input/output written without statements) inside a grouping
    that is used in several config contexts -- read-write, config false, rpc input and output, notification --, and
    augments by DIFFERENT modules into single instances: every instance is a tree of its own"""
    out = []
    for _ in range(n):
        kinds = rnd.sample(["container", "list", "case", "rpc"], rnd.randint(1, 3))
        gbody = []
        for k in kinds:
            if k == "container":
                gbody.append(("container", "hook", None, []))
            elif k == "list":
                gbody.append(("list", "hl", None, None, None, None, []))
            elif k == "case":
                gbody.append(("choice", "hch", None, None, None, [("case", "hc", [])]))
            else:
                gbody.append(("rpc", True, "hact", [], []))
        if rnd.random() < 0.5:
            gbody.append(_lf("gname", rnd.choice([None, None, False])))
        a = _m("a", "a", "urn:a", body=[("grouping", 1, "ext", gbody)])
        ctxs = []
        for name, cfg in (("cfg", None), ("cfgt", True), ("state", False)):
            if rnd.random() < 0.8:
                a["body"].append(("container", name, cfg, [("uses", "ext"), _lf("name")]))
                ctxs.append([name])
        if rnd.random() < 0.6:
            a["body"].append(("container", "mixed", False, [("container", "rw", True, [("uses", "ext")])]))
            ctxs.append(["mixed", "rw"])
        if "rpc" not in kinds and rnd.random() < 0.7:          # an action may not sit inside an rpc
            a["body"].append(("rpc", False, "run", [("uses", "ext")], [("uses", "ext")]))
            ctxs += [["run", "input"], ["run", "output"]]
        if "rpc" not in kinds and rnd.random() < 0.4:
            a["body"].append(("notification", "nt", [("uses", "ext")]))
            ctxs.append(["nt"])
        if len(ctxs) < 2:
            a["body"].append(("container", "extra", None, [("uses", "ext")]))
            a["body"].append(("container", "extra2", False, [("uses", "ext")]))
            ctxs += [["extra"], ["extra2"]]
        targets = {"container": ["hook"], "list": ["hl"], "case": ["hch", "hc"], "rpc": None}
        mods = [a]
        rnd.shuffle(ctxs)
        for i, cx in enumerate(ctxs[:rnd.randint(1, min(4, len(ctxs)))]):
            k = rnd.choice(kinds)
            if k == "rpc":
                tail = ["hact", rnd.choice(["input", "output"])]
            else:
                tail = targets[k]
            path = "/" + "/".join("a:" + x for x in cx + tail)
            body = [_lf("aug%d" % i, rnd.choice([None, None, True, False]))]
            if rnd.random() < 0.5:
                body.append(("container", "knobs%d" % i, rnd.choice([None, None, False]), [_lf("knob")]))
            if rnd.random() < 0.3:
                a["augments"].append((path, body))                 # by the module itself
            else:
                mods.append(_m("b%d" % i, "b%d" % i, "urn:b%d" % i, imports=[("a", "a")], augments=[(path, body)]))
        out.append(mods)
    return out


def sub_unprefixed_schemas(rnd, n):
    """augment (and deviation) paths written WITHOUT a prefix on the first step -- 'a name without a prefix is a name of the
    current module' -- in a module and in its submodules (included by the module or nested in another submodule), with
    every combination of writer (module, submodule, nested submodule) x text that defines the first step (the writer
    itself, the module, a sibling or nested submodule) x spelling of the remaining steps; targets under config false /
    true / unset containers, rpc input/output, a choice, and containers that another augment of the set placed.  What a
    submodule writes belongs to the tree of its module, whatever private tree the lookup starts in."""
    out = []
    for _ in range(n):
        uid = [0]

        def nm(stem):
            uid[0] += 1
            return "%s%d" % (stem, uid[0])
        cfg = lambda: rnd.choice([None, None, True, False])
        nested = rnd.random() < 0.5                          # ms2 is included by ms1 (merged into ms1's private tree)
        m = _m("m", "m", "urn:m", includes=["ms1"] + ([] if nested else ["ms2"]),
               body=[("container", "top", cfg(), [_lf("name"), ("container", "inner", cfg(), [_lf("il")])])])
        ms1 = _m("ms1", "m", "", belongs="m", includes=["ms2"] if nested else [],
                 body=[("container", "stats", False, [("container", "counters", None, [_lf("in")])]),
                       ("container", "settings", cfg(), [("container", "limits", cfg(), [_lf("max")])])])
        ms2 = _m("ms2", "m", "", belongs="m", body=[("container", "other", cfg(), [("container", "box", cfg(), [])])])
        # (steps, text that defines the first step)
        targets = [(["top"], "m"), (["top", "inner"], "m"), (["stats"], "ms1"), (["stats", "counters"], "ms1"),
                   (["settings"], "ms1"), (["settings", "limits"], "ms1"), (["other"], "ms2"), (["other", "box"], "ms2")]
        if rnd.random() < 0.5:
            ms1["body"].append(("rpc", False, "sr", [_lf("si")] if rnd.random() < 0.5 else None, [_lf("so")] if rnd.random() < 0.5 else None))
            targets += [(["sr", "input"], "ms1"), (["sr", "output"], "ms1")]
        if rnd.random() < 0.5:
            ms1["body"].append(("choice", "sch", None, None, None, [_lf("sm")]))
            targets.append((["sch"], "ms1"))
        if rnd.random() < 0.4:
            ms2["body"].append(("list", "rows", "rk", False, None, None, [_lf("rk")]))
            targets.append((["rows"], "ms2"))
        mods = {"m": m, "ms1": ms1, "ms2": ms2}
        sc = [m, ms1, ms2]
        other = None
        if rnd.random() < 0.4:                                   # a second module: its paths need the prefix
            other = _m("t", "t", "urn:t", imports=[("xm", "m")])
            sc.append(other)

        def spell(steps, style, pfx):
            if style == 0:
                return "/" + "/".join(steps)                                       # no prefix anywhere
            if style == 1:
                return "/" + "/".join([steps[0]] + [pfx + ":" + x for x in steps[1:]])   # first step bare
            if style == 2:
                return "/" + "/".join([pfx + ":" + steps[0]] + steps[1:])          # only the first step prefixed
            return "/" + "/".join(pfx + ":" + x for x in steps)

        def body_for(steps):
            b = [_lf(nm("ua"), cfg())]
            c = None
            if steps[-1] != "sch" and rnd.random() < 0.5:
                c = nm("uc")
                b.append(("container", c, cfg(), [_lf(nm("ul"), cfg())]))
            return b, c
        # one augment of every submodule-defined first step by its own writer, first step bare: the defining case
        plan = []
        for w in ("ms1", "ms2"):
            own = [t for t in targets if t[1] == w]
            plan.append((w, rnd.choice(own), rnd.choice([0, 0, 1])))
        for _ in range(rnd.randint(1, 4)):
            plan.append((rnd.choice(["m", "ms1", "ms1", "ms2", "ms2"]), rnd.choice(targets), rnd.randint(0, 3)))
        rnd.shuffle(plan)
        for w, (steps, _), style in plan:
            b, c = body_for(steps)
            mods[w]["augments"].append((spell(steps, style, "m"), b))
            if c is not None and rnd.random() < 0.5:              # a chain into the container just placed
                w2 = rnd.choice(["m", "ms1", "ms2"])
                mods[w2]["augments"].insert(rnd.randint(0, len(mods[w2]["augments"])),
                                            (spell(steps + [c], rnd.choice([0, 1, 3]), "m"), [_lf(nm("uch"), cfg())]))
            elif c is not None and other is not None and rnd.random() < 0.5:
                other["augments"].append((spell(steps + [c], 3, "xm"), [_lf(nm("ut"), cfg())]))
        with_oracle = True
        if rnd.random() < 0.25:                                   # a deviation written in a submodule, bare path: tie only
            w = rnd.choice(["ms1", "ms2"])
            leafpath = {"ms1": ["settings", "limits", "max"], "ms2": ["other"]}[w]
            mods[w]["deviations"].append((spell(leafpath, rnd.choice([0, 1]), "m"), [dict(kind="replace", cfg=rnd.random() < 0.5)]))
            with_oracle = False
        out.append((sc, with_oracle))
    return out


# ------------------------------------------------------------------ several loaded revisions of one module
REV_DATES = ["2017-03-05", "2019-01-01", "2019-11-30", "2021-06-01", "2023-02-28"]


def rev_key(m):
    return m["name"] + ("@" + m["rev"] if m.get("rev") else "")


def render_rev(m):
    """schema_gen.render_module plus revision statements and revision-date substatements of import / include"""
    if m["belongs"] is None:
        s = 'module %s {\n  namespace "%s";\n  prefix %s;\n' % (m["name"], m["ns"], m["prefix"])
    else:
        s = "submodule %s {\n  belongs-to %s { prefix %s; }\n" % (m["name"], m["belongs"], m["prefix"])
    for p, mn in m["imports"]:
        d = m.get("pins", {}).get(p)
        s += "  import %s { prefix %s; %s}\n" % (mn, p, "revision-date %s; " % d if d else "")
    for sn in m["includes"]:
        d = m.get("incpins", {}).get(sn)
        s += ("  include %s { revision-date %s; }\n" % (sn, d)) if d else ("  include %s;\n" % sn)
    for d in m.get("revs", []):
        s += "  revision %s;\n" % d
    for n in m["body"]:
        s += sg.render_node(n)
    for path, body in m["augments"]:
        s += "  augment %s {\n%s  }\n" % (sg.q(path), "".join(sg.render_node(c, "    ") for c in body))
    return s + "}\n"


def rev_rename(rs):
    """the revision set as a set of modules with distinct names: the revision filed under the bare name (the most recent
    one loaded) keeps the name, every other loaded revision is the module `name@revision`; import and include statements
    name what Modules.FindModule binds them to (name@revision-date when that revision is loaded, else the bare name).
    -> (plain schema, visiting order of Process: keys of ms.Modules, then of ms.SubModules, in string order)"""
    newest = {}
    for m in rs:
        k = (m["belongs"] is None, m["name"])
        if k not in newest or newest[k] < rev_key(m):
            newest[k] = rev_key(m)
    loaded = {(m["belongs"] is None, rev_key(m)) for m in rs}

    def mname(m):
        return m["name"] if newest[(m["belongs"] is None, m["name"])] == rev_key(m) else rev_key(m)

    def bind(is_mod, name, date):
        if date and (is_mod, name + "@" + date) in loaded and newest.get((is_mod, name)) != name + "@" + date:
            return name + "@" + date
        return name
    out, keys = [], {True: [], False: []}
    for m in rs:
        x = dict(m)
        x["name"] = mname(m)
        x["imports"] = [(p, bind(True, mn, m.get("pins", {}).get(p))) for p, mn in m["imports"]]
        x["includes"] = [bind(False, sn, m.get("incpins", {}).get(sn)) for sn in m["includes"]]
        for k in ("rev", "revs", "pins", "incpins"):
            x.pop(k, None)
        out.append(x)
        is_mod = m["belongs"] is None
        if m.get("rev"):
            keys[is_mod].append((rev_key(m), x["name"]))
        if x["name"] == m["name"]:
            keys[is_mod].append((m["name"], x["name"]))
    order = [v for _, v in sorted(keys[True])] + [v for _, v in sorted(keys[False])]
    return out, order


def revision_schemas(rnd, n):
    """module sets in which a module -- the augmenting one b, its submodule bs, the augmented one a -- is loaded in ONE,
    TWO or THREE revisions at once (different importers pin different revision-dates, or both files were read).  Every
    loaded revision of b (and of bs) writes 0..2 augments of its own: into a's tree below config false / unset
    containers, rpc input/output and a choice, into the container another revision placed, into its own tree; a third
    module c augments what an old revision of b placed.  Every node any loaded text places must be in the tree."""
    out = []
    for _ in range(n):
        uid = [0]

        def nm(stem):
            uid[0] += 1
            return "%s%d" % (stem, uid[0])
        cfg = lambda: rnd.choice([None, None, True, False])
        dates = sorted(rnd.sample(REV_DATES, 3))
        # ---- a: the augmented module (one or two revisions; importers bind to the pinned or the most recent one)
        abody = [("container", "state", False, [_lf("up"), ("container", "hook", None, [])]),
                 ("container", "settings", None, [_lf("mtu"), ("container", "deep", cfg(), [_lf("d")])]),
                 ("rpc", False, "run", [_lf("i")], [_lf("o")] if rnd.random() < 0.5 else None),
                 ("choice", "ch", None, None, None, [_lf("sh")])]
        atargets = [["state"], ["state", "hook"], ["settings"], ["settings", "deep"], ["run", "input"], ["run", "output"], ["ch"]]
        a_revs = rnd.choice([0, 1, 1, 2])
        amods = []
        for i in range(max(1, a_revs)):
            d = dates[i] if a_revs else None
            amods.append(dict(_m("a", "a", "urn:a", body=list(abody) + ([_lf("only%d" % i)] if a_revs == 2 else [])),
                              rev=d, revs=[x for x in reversed(dates[:i + 1])] if d else []))
        # ---- b: the augmenting module, 1..3 revisions
        b_revs = rnd.choice([1, 2, 2, 2, 3])
        with_sub = rnd.random() < 0.35
        sub_revs = with_sub and rnd.random() < 0.6               # the submodule has the revisions of its module
        bmods, smods, placed = [], [], []

        def augs(pfx, k, apin):
            res = []
            for _ in range(k):
                steps = rnd.choice(atargets)
                b = [_lf(nm("ra"), cfg())]
                if steps[-1] != "ch" and rnd.random() < 0.5:
                    c = nm("rc")
                    b.append(("container", c, cfg(), [_lf(nm("rl"), cfg())]))
                    placed.append((steps, c, apin))
                res.append(("/" + "/".join(pfx + ":" + x for x in steps), b))
            return res
        for j in range(b_revs):
            d = dates[j] if (b_revs > 1 or rnd.random() < 0.5) else None
            apin = dates[rnd.randrange(a_revs)] if a_revs == 2 and rnd.random() < 0.5 else None
            # boundary counts: an old revision without augments is the harmless case, the newest without is not
            k = rnd.choice([0, 1, 1, 2])
            b = dict(_m("b", "b", "urn:b", imports=[("a", "a")], body=[("container", "own", cfg(), [_lf("o%d" % j)])]),
                     rev=d, revs=[x for x in reversed(dates[:j + 1])] if d else [], pins={"a": apin} if apin else {})
            b["augments"] = augs("a", k, apin)
            if rnd.random() < 0.4:
                b["augments"].append(("/b:own", [_lf(nm("bo"), cfg())]))       # into this revision's own tree
            if with_sub:
                b["includes"] = ["bs"]
                if sub_revs and d:
                    b["incpins"] = {"bs": d}
                if sub_revs or j == b_revs - 1:
                    sd = d if sub_revs else None
                    sm = dict(_m("bs", "b", "", belongs="b", imports=[("a", "a")], body=[("container", "subc%d" % j, cfg(), [_lf("sl")])]),
                              rev=sd, revs=[sd] if sd else [], pins={"a": apin} if apin else {})
                    sm["augments"] = augs("a", rnd.choice([0, 1, 2]), apin)
                    smods.append(sm)
            bmods.append(b)
        rs = amods + bmods + smods
        # ---- c: augments what some revision of b placed (chain through an augment of an old revision)
        if placed and rnd.random() < 0.6:
            steps, cname, apin = rnd.choice(placed)
            c = dict(_m("c", "c", "urn:c", imports=[("a", "a"), ("b", "b")]), rev=None, revs=[], pins={"a": apin} if apin else {})
            c["augments"].append(("/" + "/".join(["a:" + x for x in steps] + ["b:" + cname]), [_lf(nm("cl"), cfg())]))
            if b_revs > 1 and rnd.random() < 0.5:
                c["pins"]["b"] = rnd.choice(dates[:b_revs])
            rs.append(c)
        rnd.shuffle(rs)                                          # the order in which the files are read
        out.append(rs)
    return out


def revision_feature_sets():
    """the shapes the family is built around, written out"""
    def rv(m, *revs, **kw):
        return dict(m, rev=revs[0] if revs else None, revs=list(revs), **kw)
    a = rv(_m("a", "a", "urn:a", body=[("container", "state", False, [_lf("up")]), ("container", "settings", None, [_lf("mtu")])]))
    b1 = rv(_m("b", "b", "urn:b", imports=[("a", "a")],
               augments=[("/a:state", [_lf("old-drops")]),
                         ("/a:settings", [("container", "legacy", None, [_lf("knob"), _lf("seen", False)])])]), "2019-01-01")
    b2 = rv(_m("b", "b", "urn:b", imports=[("a", "a")],
               augments=[("/a:state", [_lf("drops")]), ("/a:settings", [_lf("knob")])]), "2021-06-01", "2019-01-01")
    c = rv(_m("c", "c", "urn:c", imports=[("a", "a"), ("b", "b")], augments=[("/a:settings/b:legacy", [_lf("viac", False)])]),
           pins={"b": "2019-01-01"})
    one = rv(_m("b", "b", "urn:b", imports=[("a", "a")], augments=[("/a:state", [_lf("old-drops")])]), "2019-01-01")
    return [[a, b1, b2], [b2, a, b1, c], [a, one]]


def rev_go_case(rs):
    toks = ["process", "-", ",".join(["L%d" % i for i in range(len(rs))] + ["P"]), str(len(rs))]
    for m in rs:
        toks += [sg.hx(rev_key(m) + ".yang"), sg.hx(render_rev(m))]
    return " ".join(toks)


def revision_check(res, sets, stats):
    """several loaded revisions lie outside Model/Schema.v (its modules have distinct names): the set is RENAMED into one
    the model covers (rev_rename) -- tie: the model's forest of the renamed set against the implementation's trees, every
    revision's tree under its key, with the instantiating-module column projected away where the renaming makes a
    namespace ambiguous -- and the source-level oracle runs on the renamed set with all revisions of a module counting as
    ONE module for InstantiatingModule (the property's text, checked on the implementation directly)."""
    import json
    plain = [rev_rename(rs) for rs in sets]
    go = lib.run_go([rev_go_case(rs) for rs in sets])
    ml = lib.run_ml([sg.model_case(sc, order=order) for sc, order in plain])
    bad = 0
    for rs, (sc, order), g, m in zip(sets, plain, go, ml):
        rep = dict(kind="revisions", revset=rs)
        stats["revision_sets"] += 1
        nrev = {}
        for x in rs:
            nrev[x["name"]] = nrev.get(x["name"], 0) + 1
        stats["revision_sets_multi"] += 1 if any(v > 1 for k, v in nrev.items() if k != "a") else 0
        if not g.startswith("{"):
            res.violation("implementation crashed on a set with several revisions: %s" % g[:300], rep)
            continue
        j = json.loads(g)
        if any(l.startswith("err") for l in j["loads"]):
            res.violation("a revision of a generated module is refused when read: %s" % j["loads"], rep)
            continue
        run = j["runs"][-1]
        if run["errors"]:
            if m != "err" and bad < 3:
                bad += 1
                res.violation("Process reports %s on a set whose every augment has its target (several revisions loaded); "
                              "the model of the renamed set gives %s" % (run["errors"][:2], m[:200]), rep)
            continue
        # every module object under its key: the bare name for the revision filed there, else name@revision
        for d in run["modules"]:
            if d["name"] not in d["keys"]:
                d["name"] = sorted(d["keys"])[0]
            d["tree"]["name"] = d["name"]
        before = len(res.violations)
        oracle_check(res, sc, run, stats, base=lambda n: n.split("@")[0], rep=rep)
        if len(res.violations) > before:
            continue
        nsn = {}
        for x in sc:
            if x["belongs"] is None:
                nsn[x["ns"]] = nsn.get(x["ns"], 0) + 1
        amb = {ns for ns, k in nsn.items() if k > 1}

        def blank(n):
            if n["ns"] in amb:
                n["instmod"] = "ERR"
            for c in n.get("children") or []:
                blank(c)
            for io in ("input", "output"):
                if n.get(io):
                    blank(n[io])
        mods = sorted([d for d in run["modules"] if not d["sub"]], key=lambda d: d["name"].encode())
        for d in mods:
            blank(d["tree"])
        canon = "ok " + " ".join(sg.canon_go_node(d["tree"]) for d in mods)
        if canon != m:
            if bad < 3:
                bad += 1
                res.violation("several revisions loaded: the trees differ from the model's trees of the renamed set: impl=%s model=%s"
                              % (canon[:300], m[:300]), dict(rep, impl=canon, model=m))
        else:
            stats["revision_tie_ok"] += 1



def gen_schemas(rnd, n):
    """(schema, with_oracle)"""
    from props import c17
    out = [(s, True) for s in hook_schemas(rnd, max(12, n // 12))]
    # augments over several rounds of {augment, FixChoice} that graft shorthand choice members: every member needs its
    # implied case, attributed to the augmenting module
    out += [(s, True) for s in c17.late_augment_schemas(rnd, max(12, n // 12))]
    # paths without a prefix on the first step, written in submodules (and modules)
    out += sub_unprefixed_schemas(rnd, max(40, n // 8))
    for i in range(n):
        r = rnd.random()
        if r < 0.35:
            out.append((sg.random_schema(rnd, p_dev=0.0), True))
        elif r < 0.7:
            out.append((sg.random_schema(rnd, p_dev=0.0, p_sub=0.6, p_aug=1.0, n_modules=rnd.randint(2, 4)), True))
        else:
            out.append((sg.random_schema(rnd), False))       # with deviations: tie only
    return out


def run(res, tier, seed, proof):
    rnd = random.Random(seed)
    n = 320 if tier == "quick" else 6000
    stats = dict(status={}, oracle_skipped={}, oracle_sets=0, oracle_nodes=0, foreign_ns_nodes=0, ro_nodes=0,
                 tie_ok=0, tie_err=0, spec_nodes=0, pinned_walk_differs=0, config_true_below_output_nodes=0,
                 print_starts=0, print_lines=0, history_sets=0, revision_sets=0, revision_sets_multi=0, revision_tie_ok=0)
    sets = [(s, True) for s in feature_schemas()] + gen_schemas(rnd, n)
    revision_check(res, revision_feature_sets() + revision_schemas(rnd, max(40, n // 8)), stats)
    mism = 0
    for i in range(0, len(sets), 500):
        part = sets[i:i + 500]
        spec_work, hist_work = [], []
        go = lib.run_go([sg.go_case(sc) for sc, _ in part])
        ml = lib.run_ml([sg.model_case(sc) for sc, _ in part])
        for (sc, with_oracle), g, m in zip(part, go, ml):
            st, canon, j = sg.canon_go(g)
            stats["status"][st] = stats["status"].get(st, 0) + 1
            if st not in ("ok", "err", "loaderr"):
                res.violation("implementation crashed on a generated module set: %s" % g[:300], dict(kind="impl", schema=sc, impl=g[:2000]))
                continue
            want = canon if st == "ok" else "err"
            if m != want:
                mism += 1
                if mism <= 3:
                    res.violation("model and implementation disagree (namespace / read-only / instantiating module dump): "
                                  "impl=%s model=%s" % ((want or "")[:200], m[:200]),
                                  dict(kind="correspondence", schema=sc, impl=want, model=m))
            else:
                stats["tie_ok" if st == "ok" else "tie_err"] += 1
            if st == "ok" and with_oracle:          # the oracle does not depend on the model
                oracle_check(res, sc, j["runs"][-1], stats)
            if st == "ok":
                spec_work.append((sc, j["runs"][-1]))
                hist_work.append((sc, canon))
        spec_check(res, spec_work, stats)
        print_check(res, spec_work, stats)
        history_check(res, hist_work, stats)
    clean = stats["status"].get("ok", 0)
    cov = dict(
        evaluations=len(sets) + stats["oracle_nodes"] + stats["spec_nodes"], distinct_nontrivial=stats["oracle_nodes"],
        rule="module sets from schema_gen.random_schema (explicit config at random depths, uses of groupings of other "
             "modules, augments from modules and submodules, choice/case with shorthand members, rpc/action "
             "input/output, notifications) plus hand-written feature sets; tie = whole-forest dump equal; oracle = "
             "every node of every cleanly processed deviation-free set against the source-level expansion; "
             "non-trivial = a node checked against the oracle; plus sets whose submodules (and modules) write augment / "
             "deviation paths without a prefix on the first step, and sets with one to three loaded revisions of the "
             "augmenting module, of its submodule and of the augmented module (oracle on the implementation + model of the "
             "renamed set)",
        exhaustive=False, mismatches=mism, module_sets=len(sets), clean=clean,
        distribution=dict(status=stats["status"], tie_ok=stats["tie_ok"], tie_err=stats["tie_err"],
                          oracle_sets=stats["oracle_sets"], oracle_nodes=stats["oracle_nodes"],
                          nodes_with_foreign_namespace=stats["foreign_ns_nodes"], read_only_nodes=stats["ro_nodes"],
                          oracle_skipped=stats["oracle_skipped"], spec_nodes=stats["spec_nodes"],
                          history_sets=stats["history_sets"], revision_sets=stats["revision_sets"],
                          revision_sets_with_several_revisions_of_an_augmenting_module=stats["revision_sets_multi"],
                          revision_tie_ok=stats["revision_tie_ok"], print_starts=stats["print_starts"], printed_lines_checked=stats["print_lines"],
                          nodes_where_pinned_walk_differs=stats["pinned_walk_differs"],
                          nodes_with_config_true_below_output=stats["config_true_below_output_nodes"]),
        samples=[sg.render_module(m)[:300] for m in sets[0][0][:2]],
    )
    if stats["oracle_sets"] * 3 < len(sets):
        res.violation("generator drifted: the oracle covered only %d of %d module sets" % (stats["oracle_sets"], len(sets)),
                      dict(kind="generator", status=stats["status"], skipped=stats["oracle_skipped"]), no_input=True)
    assumptions = ["the YANG text given to the implementation and the token encoding given to the model render the same "
                   "abstract schema (schema_gen.render_module / enc_module)",
                   "the oracle runs on module sets without deviation statements (a deviation may rewrite config); sets with "
                   "deviations are covered by the tie only",
                   "namespaces of the generated modules are pairwise distinct except in the hand-written ambiguity set",
                   "several loaded revisions of one module lie outside Model/Schema.v (module names are distinct there): for "
                   "these sets the property's text is checked on the implementation directly by the source-level oracle "
                   "(every node any loaded revision's text places is in the tree with the namespace / read-only flag / "
                   "instantiating module the text gives; all revisions of a module count as one module), and the model is "
                   "run on the set renamed to distinct names (older revisions as name@revision, imports/includes bound as "
                   "Modules.FindModule binds them, visiting order = sorted keys) with the instantiating-module column "
                   "projected away for the namespaces the renaming makes ambiguous",
                   "a submodule in the generated sets is always included by (a revision of) its module"]
    return cov, assumptions


def replay(rep, res):
    if rep.get("kind") == "revisions":
        rs = rep["revset"]
        for m in rs:
            print("// file %s.yang" % rev_key(m))
            print(render_rev(m))
        r2 = lib.Result("C12", "quick", 0)
        revision_check(r2, [rs], dict(oracle_skipped={}, oracle_sets=0, oracle_nodes=0, foreign_ns_nodes=0, ro_nodes=0,
                                      revision_sets=0, revision_sets_multi=0, revision_tie_ok=0))
        for what, _, _ in r2.violations:
            print("revisions:", what)
        return 1 if r2.violations else 0
    sc = rep["schema"]
    for m in sc:
        print(sg.render_module(m))
    g = lib.run_go([sg.go_case(sc)])[0]
    m = lib.run_ml([sg.model_case(sc)])[0]
    st, canon, j = sg.canon_go(g)
    want = canon if st == "ok" else "err"
    print("impl :", (want or st)[:2000])
    print("model:", m[:2000])
    rc = 0 if m == want else 1
    if rep.get("kind") == "history":
        o = lib.run_go([sg.go_case(sc, ops=rep["ops"])])[0]
        c2 = sg.canon_go(o)[1]
        print("history %s: %s" % (rep["ops"], "same as batch" if c2 == canon else (c2 or "")[:2000]))
        rc = rc or (0 if c2 == canon else 1)
    if st == "ok" and rep.get("kind") == "print":
        r2 = lib.Result("C12", "quick", 0)
        print_check(r2, [(sc, j["runs"][-1])], dict(print_starts=0, print_lines=0, history_sets=0))
        for what, _, _ in r2.violations:
            print("print:", what)
            rc = 1
    if st == "ok" and rep.get("kind") == "oracle":
        r2 = lib.Result("C12", "quick", 0)
        stats = dict(oracle_skipped={}, oracle_sets=0, oracle_nodes=0, foreign_ns_nodes=0, ro_nodes=0)
        oracle_check(r2, sc, j["runs"][-1], stats)
        for what, _, _ in r2.violations:
            print("oracle:", what)
            rc = 1
    return rc
