"""C05 — Same sources and options give the same result, whatever the load order.

Three parts (see check/manifest.d/C05.json for what is theorem and what is testing):
 1. tie of coq/Model/ErrorSort.v to errorSort in entry.go: the Go command `errsort` (reaches errorSort through
    Entry.GetErrors) and the extracted model on generated lists of error texts: exact equality on every list (Less is
    proved a strict total order on all texts, so the sorted, de-duplicated list is unique), and one answer per SET of
    texts; the witnesses of the `_refuted` theorems about the Less of before the repair are corpus cases.
 2. the violation finder (metamorphic, implementation only): every generated module set is processed k times in the
    same load order (Go randomises map iteration on every `range`) and in permuted load orders; all dumps (error
    strings in order, trees, types, identity value lists in order) must be identical.  The error list is also
    checked on its own: ordered by (file, numeric line, numeric col), no duplicates.
 3. the goyang command (built from /repo) with --format tree / types on the same sets, repeated and with permuted
    arguments: stdout, stderr and exit status must be identical.
 2c. histories (Go command c05hist): loads with a Process / GetModule in between against the same sources loaded at once,
    on sets whose uses statements, types and identities refer to a source that exists in several revisions.
 2d. source trees on disk, modules asked for by NAME through a search path with dir/... entries, the same module name in
    several directories: the file each loaded name denotes against the extracted model (C05.lookup_fs over
    Model/File.v; C05_lookups_perm), and all request orders against each other.
"""
import itertools
import json
import os
import random
import re
import shutil
import subprocess
import tempfile

import lib
from props import schema_gen as sg

NEED_ML = True
GOYANG = os.path.join(lib.WORK, "goyang")


def hx(s):
    b = s.encode() if isinstance(s, str) else s
    return b.hex() if b else "-"


def unhx(t):
    return b"" if t == "-" else bytes.fromhex(t)


# ============================================================================ part 1: errorSort
FILES = ["m.yang", "a.yang", "b.yang", "m0.yang", "m10.yang", "dir/m.yang"]
NUMS_CANON = ["0", "1", "2", "9", "10", "11", "12", "19", "99", "100", "101", "1000", "9223372036854775807"]
NUMS_ODD = ["01", "007", "+1", "-1", "-0", "00", "9223372036854775808", "19999999999999999999", "-9223372036854775808",
            "-9223372036854775809", "1a", "a1", "", " 9", "9 ", "1_0", "0x10", "+", "-", "１"]
TEXTS = [" msg", " other", " unknown type: nope", " duplicate key: a", " x: y: z", " 5", " "]
TEXTS_ODD = ["5", "05", "12", "", "x", "a:b", "9:1"]
UNPOS = ["no such module: x", "no such module: y", "module not found: m", "cannot find target node to deviate, /a:b/a:c",
         "unknown", "line 5:3: oops", "line 10:3: oops", "m.yang", "m.yang: early", "m.yang:7", "m.yang:7:", ":", "::", ":::", "::::"]


def err_lists(rnd, n):
    """(kind, list of error texts)"""
    out = []

    def pos(canon=True):
        nums = NUMS_CANON if canon else NUMS_CANON + NUMS_ODD
        return "%s:%s:%s:%s" % (rnd.choice(FILES[:3] if rnd.random() < 0.7 else FILES), rnd.choice(nums), rnd.choice(nums),
                                rnd.choice(TEXTS if canon else TEXTS + TEXTS_ODD))

    def sample(gen, k):
        base = [gen() for _ in range(max(1, k))]
        return [rnd.choice(base) for _ in range(k)] if rnd.random() < 0.5 else base[:k]

    sizes = [0, 1, 2, 3, 3, 4, 5, 6, 8, 11, 12, 13, 20, 40]
    for _ in range(n):
        k = rnd.choice(sizes)
        r = rnd.random()
        if r < 0.4:
            out.append(("positioned", sample(lambda: pos(True), k)))
        elif r < 0.5:
            # no numeric field anywhere
            out.append(("text-only", sample(lambda: rnd.choice(["no such module: ", "no such submodule: ", "x:y:", "a:b:c:d:"]) +
                                            rnd.choice(["x", "y", "zz", " 9", "a1"]), k)))
        elif r < 0.6:
            out.append(("unpositioned", sample(lambda: rnd.choice(UNPOS), k)))
        elif r < 0.8:
            out.append(("odd-fields", sample(lambda: pos(False), k)))
        else:
            out.append(("mixed", sample(lambda: rnd.choice(UNPOS) if rnd.random() < 0.3 else pos(rnd.random() < 0.5), k)))
    # the witnesses of the _refuted theorems and their rotations
    for w in (["f:9", "f:10", "f:1a"], ["f:9", "f:10", "f:19999999999999999999"], ["f:1", "f:01"]):
        for i in range(len(w)):
            out.append(("witness", w[i:] + w[:i]))
    return out


def errsort_line(l):
    return " ".join(["errsort"] + [hx(x) for x in l])


def check_errsort(res, rnd, tier):
    lists = err_lists(rnd, 1500 if tier == "quick" else 30000)
    # permuted variants: the model is proved permutation-invariant; the implementation must follow
    extra = []
    for kind, l in lists[:len(lists) // 3]:
        if len(l) > 1:
            p = l[:]
            rnd.shuffle(p)
            extra.append((kind + "-perm", p))
    lists += extra
    lines = [errsort_line(l) for _, l in lists]
    go = lib.run_go(lines)
    ml = lib.run_ml(lines)
    cl = lib.run_ml(["errclass" + ln[len("errsort"):] for ln in lines])
    stats = dict(lists=len(lists), positioned=0, kinds={}, mismatches=0, distinct_sets=0)
    by_set = {}
    for (kind, l), ln, g, m, c in zip(lists, lines, go, ml, cl):
        stats["kinds"][kind] = stats["kinds"].get(kind, 0) + 1
        if c.split()[0] == "positioned":
            stats["positioned"] += 1
        if g != m or not g.startswith("n="):
            stats["mismatches"] += 1
            if stats["mismatches"] <= 3:
                res.violation("errorSort: model and implementation disagree on %r: impl=%s model=%s" %
                              (l, [unhx(t).decode("utf8", "replace") for t in g.split()[1:]] if g.startswith("n=") else g[:200],
                               [unhx(t).decode("utf8", "replace") for t in m.split()[1:]] if m.startswith("n=") else m[:200]),
                              dict(kind="errsort", case=ln, impl=g, model=m))
            continue
        # a function of the set of texts (C05_errorSort_set), on the implementation
        key = frozenset(l)
        prev = by_set.setdefault(key, (g, ln))
        if prev[0] != g and stats["mismatches"] < 3:
            stats["mismatches"] += 1
            res.violation("errorSort returns different lists for the same set of error texts %r" % sorted(key),
                          dict(kind="errsort-set", case=ln, impl=g, other_case=prev[1], other=prev[0]))
    stats["distinct_sets"] = len(by_set)
    return stats, len(lines) * 3


# ============================================================================ part 2: module sets
def files_of_schema(schema):
    return [(m["name"] + ".yang", sg.render_module(m)) for m in schema]


def mod(name, body, prefix=None, imports=(), rev=None, ns=None, sub_of=None, includes=()):
    if sub_of:
        s = "submodule %s {\n  belongs-to %s { prefix %s; }\n" % (name, sub_of, prefix or sub_of)
    else:
        s = 'module %s {\n  namespace "%s";\n  prefix %s;\n' % (name, ns or "urn:" + name, prefix or name)
    for imp in imports:
        p, m = imp[0], imp[1]
        s += "  import %s { prefix %s; %s}\n" % (m, p, ("revision-date %s; " % imp[2]) if len(imp) > 2 else "")
    for i in includes:
        s += "  include %s;\n" % i
    if rev:
        s += "  revision %s;\n" % rev
    return (name + ("@" + rev if rev else "") + ".yang", s + body + "}\n")


def g_identities(rnd):
    """the same identity name in several modules, all (transitively) derived from one base; identityref users"""
    n = rnd.randint(2, 4)
    names = ["x", "y", "z"]
    files = [mod("a", "  identity base;\n  identity x { base base; }\n  identity other;\n"
                      "  typedef t { type identityref { base base; } }\n  leaf r { type t; }\n"
                      "  leaf r2 { type identityref { base a:x; } }\n")]
    prev = ["a"]
    for i in range(1, n):
        me = "b%d" % i
        imports = [(p, p) for p in prev]
        body = ""
        for nm in names:
            if rnd.random() < 0.7:
                bases = ["a:base"] + ["%s:%s" % (p, "x") for p in prev] + ([nm2 for nm2 in names if nm2 < nm and ("identity %s " % nm2) in body])
                body += "  identity %s { base %s; }\n" % (nm, rnd.choice(bases))
        body += "  leaf u%d { type identityref { base a:base; } }\n" % i
        files.append(mod(me, body, imports=imports))
        prev.append(me)
    return files


def g_dev_delete_add(rnd):
    tgt = mod("t", '  leaf l { type string; default "a"; }\n  leaf-list ll { type string; max-elements 5; }\n'
                   '  leaf m { type string; mandatory true; }\n')
    seqs = [('deviate delete { default "a"; }', 'deviate add { default "b"; }'),
            ('deviate add { default "b"; }', 'deviate delete { default "a"; }'),
            ('deviate delete { default "a"; }', 'deviate add { default "b"; }', 'deviate replace { type string; }'),
            ('deviate replace { default "c"; }', 'deviate delete { default "c"; }', 'deviate add { default "d"; }')]
    sq = list(rnd.choice(seqs))
    dev = mod("d", "  deviation /t:l {\n%s  }\n  deviation /t:ll { deviate delete { max-elements 5; } deviate add { max-elements 7; } }\n"
              % "".join("    %s\n" % s for s in sq), imports=[("t", "t")])
    return [tgt, dev]


def g_two_deviators(rnd):
    tgt = mod("t", '  leaf l { type string; default "a"; }\n  leaf n { type string; }\n'
                   '  list li { key k; leaf k { type string; } min-elements 1; }\n  container c { leaf q { type int8; } }\n')
    kinds = ['deviate replace { default "%(v)s"; }', 'deviate add { default "%(v)s"; }', 'deviate delete { default "a"; }',
             'deviate not-supported;', 'deviate replace { type int%(w)s; }', 'deviate add { units "%(v)s"; }']
    files = [tgt]
    target = rnd.choice(["/t:l", "/t:n", "/t:c/t:q", "/t:c"])
    for i in range(rnd.randint(2, 3)):
        k = rnd.choice(kinds) % dict(v="v%d" % i, w=rnd.choice(["8", "16", "32"]))
        body = "  deviation %s { %s }\n" % (target, k)
        if rnd.random() < 0.4:
            body += "  deviation /t:li { deviate replace { min-elements %d; } }\n" % (i + 2)
        files.append(mod("d%d" % i, body, imports=[("t", "t")]))
    return files


def g_two_augmenters(rnd):
    tgt = mod("t", "  container c { leaf own { type string; } }\n  choice ch { case k1 { leaf in1 { type string; } } }\n")
    files = [tgt]
    pool = ["p", "q", "own", "r"]
    made = []
    for i in range(rnd.randint(2, 3)):
        me = "g%d" % i
        body = ""
        for _ in range(rnd.randint(1, 2)):
            tpath = rnd.choice(["/t:c", "/t:c", "/t:ch"] + ["/t:c/%s:%s" % (m, c) for m, c in made])
            nm = rnd.choice(pool)
            if rnd.random() < 0.4:
                body += "  augment %s { container %s%d { leaf z { type string; } } }\n" % (tpath, nm, i)
                if tpath == "/t:c":
                    made.append((me, "%s%d" % (nm, i)))
            else:
                body += "  augment %s { leaf %s { type string; } }\n" % (tpath, nm)
        imports = [("t", "t")] + [(m, m) for m in sorted({m for m, _ in made} - {me})]
        files.append(mod(me, body, imports=imports))
    return files


def g_dup_names(rnd):
    files = []
    for i in range(rnd.randint(1, 3)):
        me = "u%d" % i
        body = "  grouping g { leaf a { type string; } leaf b { type string; } }\n"
        body += rnd.choice(["  leaf a { type string; }\n  leaf a { type int8; }\n",
                            "  container c { uses g; leaf a { type string; } }\n",
                            "  container c { uses g; uses g; }\n",
                            "  container c { leaf x { type string; } container x { } leaf x { type int8; } }\n",
                            "  leaf ok { type string; }\n"])
        files.append(mod(me, body))
    return files


def g_errors_multi(rnd):
    """errors in several files, several on one line, lines 9 / 10 / 100, columns past 9"""
    files = []
    for i in range(rnd.randint(2, 4)):
        me = rnd.choice(["e%d", "m%d", "z%d"]) % i
        body = ""
        for _ in range(rnd.randint(1, 4)):
            body += "\n" * rnd.choice([0, 1, 3, 7, 90])
            k = rnd.random()
            if k < 0.4:
                body += "  leaf a%d { type nope%d; } leaf b%d { type nope%d; }   leaf c%d { type string; } leaf d%d { type nope; }\n" % \
                        tuple(rnd.randint(0, 50) for _ in range(6))
            elif k < 0.6:
                body += "  container k%d { uses missing%d; uses missing%d; }\n" % tuple(rnd.randint(0, 9) for _ in range(3))
            elif k < 0.8:
                body += "  leaf-list f%d { type string; max-elements 0; } leaf g%d { type nope; }\n" % (rnd.randint(0, 50), rnd.randint(0, 50))
            else:
                body += "  typedef t%d { type nope%d; } leaf h%d { type t%d; }\n" % ((rnd.randint(0, 50),) * 4)
        files.append(mod(me, body))
    return files


def g_missing_imports(rnd):
    n = rnd.randint(2, 4)
    names = ["i%d" % i for i in range(n)]
    files = []
    for i, me in enumerate(names):
        imps = []
        for j, o in enumerate(names):
            if j != i and rnd.random() < 0.5:
                imps.append(("p%d" % j, o))
        for k in range(rnd.randint(0, 2)):
            imps.insert(rnd.randint(0, len(imps)), ("x%d%d" % (i, k), "gone%d" % rnd.randint(0, 3)))
        seen, out = set(), []
        for p, m in imps:
            if p not in seen and m not in [x[1] for x in out]:
                out.append((p, m))
                seen.add(p)
        incs = ["nosub%d" % i] if rnd.random() < 0.2 else []
        files.append(mod(me, "  leaf l { type string; }\n", imports=out, includes=incs))
    return files


def g_two_revisions(rnd):
    """two revisions of one module, importers with and without revision-date; optionally the deviating module itself
    exists in two revisions"""
    files = [mod("m", "  typedef t { type string; }\n  leaf a { type string; }\n  container c { leaf old { type int8; } }\n", rev="2020-01-01"),
             mod("m", "  typedef t { type int32; }\n  leaf b { type string; }\n  container c { leaf new { type int8; } }\n", rev="2021-06-01")]
    r = rnd.random()
    files.append(mod("i1", "  leaf u { type m:t; }\n", imports=[("m", "m")]))
    if r < 0.5:
        files.append(mod("i2", "  leaf v { type m:t; }\n", imports=[("m", "m", "2020-01-01")]))
    if rnd.random() < 0.5:
        files.append(mod("dv", '  deviation /m:c { deviate not-supported; }\n', imports=[("m", "m")], rev="2020-02-02"))
        files.append(mod("dv", '  deviation /i1:u { deviate replace { default "5"; } }\n', imports=[("m", "m"), ("i1", "i1")], rev="2021-02-02"))
    return files


def g_typedefs(rnd):
    files = [mod("ta", "  typedef base { type string { length 1..10; } }\n  typedef mid { type base { length 2..5; } }\n")]
    for i in range(rnd.randint(1, 3)):
        body = "  typedef t%d { type %s; }\n" % (i, rnd.choice(["ta:mid", "ta:base", "ta:gone", "string", "t%d" % i if rnd.random() < 0.2 else "ta:mid"]))
        body += "  typedef mid { type ta:mid { length %d; } }\n" % rnd.randint(2, 4)
        body += "  leaf l%d { type %s; }\n" % (i, rnd.choice(["t%d" % i, "mid", "ta:mid", "nope"]))
        body += "  leaf un%d { type union { type t%d; type ta:base; } }\n" % (i, i)
        files.append(mod("tb%d" % i, body, imports=[("ta", "ta")]))
    return files


def g_ident_shared_prefix(rnd):
    """same-named identities in modules that declare the SAME own prefix (legal: a prefix is local to the module using
    it), all derived from one base: the order of the base's value list must not be left to the map order"""
    files = [mod("base", "  identity kind;\n  identity other { base kind; }\n  leaf r { type identityref { base kind; } }\n", prefix="b")]
    n = rnd.randint(2, 4)
    names = rnd.sample(["fast", "slow", "mid", "other"], rnd.randint(1, 3))
    for i in range(n):
        me = "vendor%d" % i
        pfx = "v" if rnd.random() < 0.8 else "w"
        body = "".join("  identity %s { base b:kind; }\n" % nm for nm in names if rnd.random() < 0.9)
        if rnd.random() < 0.4:
            body += "  identity deep { base %s; }\n" % names[0] if ("identity %s " % names[0]) in body else ""
        body += "  leaf u%d { type identityref { base b:kind; } }\n" % i
        files.append(mod(me, body, prefix=pfx, imports=[("b", "base")]))
    return files


def g_typedef_cycles(rnd):
    """typedef cycles of length 2..4 (inside one module and across imports), next to other errors in several files:
    every member of a cycle is reported, whichever the dictionary map yields first"""
    files = []
    nmods = rnd.randint(1, 3)
    for mi in range(nmods):
        me = "tc%d" % mi
        body = ""
        for ci in range(rnd.randint(1, 2)):
            ln = rnd.randint(2, 4)
            names = ["c%d_%d_%d" % (mi, ci, j) for j in range(ln)]
            lines = ["  typedef %s { type %s; }\n" % (names[j], names[(j + 1) % ln]) for j in range(ln)]
            rnd.shuffle(lines)
            body += "".join(lines)
            if rnd.random() < 0.6:
                body += "  leaf l%d_%d { type %s; }\n" % (mi, ci, rnd.choice(names))
            if rnd.random() < 0.4:
                body += "  typedef into%d_%d { type %s; }\n" % (mi, ci, rnd.choice(names))
        if rnd.random() < 0.5:
            body += "  leaf bad%d { type nope%d; } leaf bad%db { type nope; }\n" % (mi, mi, mi)
        if rnd.random() < 0.3:
            body += "  typedef ok%d { type string; }\n  leaf fine%d { type ok%d; }\n" % (mi, mi, mi)
        files.append(mod(me, body))
    if nmods >= 2 and rnd.random() < 0.6:
        # a cycle through two modules that import each other
        files.append(mod("tx", "  typedef a { type ty:b; }\n  leaf la { type a; }\n", imports=[("ty", "ty")]))
        files.append(mod("ty", "  typedef b { type tx:a; }\n", imports=[("tx", "tx")]))
    return files


def g_rev_norev(rnd):
    """one module name from two sources, one with a revision statement and one without, plus importers that give no
    revision-date: which of the two the bare name denotes must not depend on the load order"""
    rev = rnd.choice(["2019-05-05", "2020-01-01", "2023-12-31"])
    n1, t1 = mod("m", "  typedef t { type string; }\n  leaf dated { type string; }\n  container c { leaf a { type int8; } }\n", rev=rev)
    n2, t2 = mod("m", "  typedef t { type int32; }\n  leaf bare { type string; }\n  container c { leaf b { type int8; } }\n")
    files = [(n1, t1), (n2, t2)]
    files.append(mod("imp1", "  leaf u { type m:t; }\n", imports=[("m", "m")]))
    if rnd.random() < 0.5:
        files.append(mod("imp2", "  leaf v { type m:t; }\n  augment /m:c { leaf extra { type string; } }\n", imports=[("m", "m")]))
    if rnd.random() < 0.3:
        files.append(mod("imp3", "  leaf w { type m:t; }\n", imports=[("m", "m", rev)]))
    if rnd.random() < 0.3:
        files.append(mod("dv", '  deviation /m:c { deviate not-supported; }\n', imports=[("m", "m")]))
    return files


OCEXT = ("openconfig-extensions.yang", 'module openconfig-extensions {\n  namespace "urn:openconfig-extensions";\n  prefix oc-ext;\n'
         '  extension posix-pattern { argument pattern; }\n}\n')


def g_posix_patterns(rnd):
    """base typedefs with 1..7 patterns and/or posix-patterns (slices whose capacity exceeds their length after append),
    restricted by 2..3 typedefs and leaf types that add posix-patterns only / patterns only / both / are unions: what one
    restriction adds must never show up in another, whatever order the typedef dictionary is walked in"""
    files = [OCEXT]
    for mi in range(rnd.randint(1, 2)):
        me = "pp%d" % mi
        body = ""
        for bi in range(rnd.randint(1, 2)):
            base = "b%d_%d" % (mi, bi)
            npat, npos = rnd.choice([(3, 3), (0, 3), (3, 0), (0, 1), (0, 5), (0, 7), (2, 6), (5, 5), (1, 0)])
            subs = ["pattern 'p%d.*';" % i for i in range(npat)] + ["oc-ext:posix-pattern '^x%d.*$';" % i for i in range(npos)]
            rnd.shuffle(subs)
            body += "  typedef %s { type string { %s } }\n" % (base, " ".join(subs))
            kinds = ["posix", "posix", "posix", "pattern", "both", "plain"]
            for ri in range(rnd.randint(2, 3)):
                k = rnd.choice(kinds)
                add = {"posix": "oc-ext:posix-pattern '^r%d{1,%d}$';" % (ri, ri + 3),
                       "pattern": "pattern 'r%d{1,%d}';" % (ri, ri + 3),
                       "both": "pattern 'q%d+'; oc-ext:posix-pattern '^q%d+$';" % (ri, ri),
                       "plain": ""}[k]
                body += "  typedef r%d_%d_%d { type %s%s }\n" % (mi, bi, ri, base, (" { %s }" % add) if add else ";")
                body += "  leaf l%d_%d_%d { type r%d_%d_%d; }\n" % (mi, bi, ri, mi, bi, ri)
            for li in range(rnd.randint(0, 2)):
                body += "  leaf d%d_%d_%d { type %s { oc-ext:posix-pattern '^d%d+$'; } }\n" % (mi, bi, li, base, li)
            body += "  leaf plain%d_%d { type %s; }\n" % (mi, bi, base)
            if rnd.random() < 0.5:
                body += "  typedef u%d_%d { type union { type %s; type int8; } }\n" % (mi, bi, base)
                body += "  leaf ua%d_%d { type u%d_%d; }\n  leaf ub%d_%d { type u%d_%d; }\n" % ((mi, bi) * 4)
        files.append(mod(me, body, imports=[("oc-ext", "openconfig-extensions")]))
    return files


def g_identity_rings(rnd):
    """derivation rings of 3..5 identities, inside one module and through modules that import each other, next to
    acyclic identities: every member of a ring is reported, whichever the identity dictionary yields first"""
    files = []
    if rnd.random() < 0.6:
        ln = rnd.randint(3, 5)
        names = ["r%d" % j for j in range(ln)]
        lines = ["  identity %s { base %s; }\n" % (names[j], names[(j + 1) % ln]) for j in range(ln)]
        rnd.shuffle(lines)
        body = "".join(lines) + "  identity top;\n  identity under { base top; }\n"
        if rnd.random() < 0.5:
            body += "  identity hanger { base %s; }\n" % rnd.choice(names)
        if rnd.random() < 0.5:
            body += "  leaf ref { type identityref { base %s; } }\n" % rnd.choice(names + ["top"])
        files.append(mod("ring", body))
    if not files or rnd.random() < 0.6:
        ln = rnd.randint(3, 5)
        mods = ["rm%d" % j for j in range(ln)]
        for j, me in enumerate(mods):
            nxt = mods[(j + 1) % ln]
            body = "  identity x%d { base %s:x%d; }\n" % (j, nxt, (j + 1) % ln)
            if rnd.random() < 0.3:
                body += "  identity extra%d { base x%d; }\n" % (j, j)
            if rnd.random() < 0.3:
                body += "  leaf bad%d { type nope; }\n" % j
            files.append(mod(me, body, imports=[(nxt, nxt)]))
    return files


def g_superseded(rnd):
    """a module whose typedef and identities are used through `type union { type p:t; }` and `type identityref
    { base p:b; }`, present in an older form (older revision, or no revision) and a newer revision that redefines
    them: the result is that of the newest, also when a Process ran before the newer source arrived"""
    old_rev = rnd.choice([None, "2019-01-01"])
    old = mod("p", "  typedef t { type int8 { range 1..10; } default 5; }\n  identity b;\n  identity d0 { base b; }\n", rev=old_rev)
    new = mod("p", "  typedef t { type string { pattern 'x.*'; length 1..8; } }\n  identity b;\n  identity d1 { base b; }\n"
                   "  identity d2 { base d1; }\n", rev="2022-02-02")
    body = ""
    for ln in rnd.sample(["  leaf u { type union { type p:t; type boolean; } }\n",
                          "  typedef tu { type union { type p:t; } }\n  leaf u2 { type tu; }\n",
                          "  leaf-list ul { type union { type boolean; type p:t; } }\n",
                          "  leaf r { type identityref { base p:b; } }\n",
                          "  typedef tr { type identityref { base p:b; } }\n  leaf r2 { type tr; }\n",
                          "  leaf direct { type p:t; }\n",
                          "  identity mine { base p:b; }\n"], rnd.randint(2, 6)):
        body += ln
    return [old, mod("a", body, imports=[("p", "p")]), new]


def g_deferred_augments(rnd):
    """several modules whose augments have to wait for a node that a module sorting AFTER them grafts, and that go into
    that same node -- with the same child name (conflict: which one is reported, and where) and with different ones"""
    prov = rnd.choice(["z", "zz", "y"])
    files = [mod("t", "  container c { leaf own { type string; } }\n"),
             mod(prov, "  augment /t:c { container n { leaf base { type string; } } }\n", imports=[("t", "t")])]
    waiting = rnd.sample(["b", "d", "e", "k"], rnd.randint(2, 3))
    pool = ["same", "same", "same", "p", "q"]
    for w in waiting:
        body = ""
        for _ in range(rnd.randint(1, 2)):
            nm = rnd.choice(pool)
            if rnd.random() < 0.3:
                body += "  augment /t:c/%s:n { container %s { leaf in%s { type string; } } }\n" % (prov, nm, w)
            else:
                body += "  augment /t:c/%s:n { leaf %s { type %s; } }\n" % (prov, nm, rnd.choice(["string", "int8"]))
        if rnd.random() < 0.3:
            body += "  augment /t:c { leaf direct_%s { type string; } }\n" % w
        files.append(mod(w, body, imports=[("t", "t"), (prov, prov)]))
    if rnd.random() < 0.4:
        # a second stage: waits for something one of the waiting modules grafts
        files.append(mod("a", "  augment /t:c/%s:n/%s:same { leaf late { type string; } }\n" % (prov, waiting[0]),
                         imports=[("t", "t"), (prov, prov), (waiting[0], waiting[0])]))
    return files


def g_submodule_clash(rnd):
    """the same top-level name (typedef, grouping, identity) defined in two submodules of one module -- not valid YANG,
    but accepted -- and used from the module, from a third submodule and from an importing module: which definition the
    name denotes must be a function of the sources"""
    subs = ["s1", "s2"] + (["s3"] if rnd.random() < 0.5 else [])
    rnd.shuffle(subs)
    kinds = rnd.sample(["typedef", "grouping", "identity"], rnd.randint(1, 3))
    files = []
    for i, sn in enumerate(subs):
        body = ""
        if "typedef" in kinds:
            body += "  typedef t { type %s }\n" % ["string { length 1..%d; }" % (i + 3), "int%d { range 0..%d; }" % (8 << (i % 2), i + 5),
                                                "boolean;"][i % 3]
        if "grouping" in kinds:
            body += "  grouping g { leaf from_%s { type string; } }\n" % sn
        if "identity" in kinds:
            body += "  identity x;\n  identity under_%s { base x; }\n" % sn
        files.append(mod(sn, body, sub_of="m", prefix="m"))
    user = "  leaf in_user { type %s; }\n" % ("t" if "typedef" in kinds else "string")
    if "grouping" in kinds:
        user += "  container cu { uses g; }\n"
    if "identity" in kinds:
        user += "  leaf ru { type identityref { base x; } }\n"
    files.append(mod("user", user, sub_of="m", prefix="m", includes=subs))
    mbody = ""
    if "typedef" in kinds:
        mbody += "  leaf a { type t; }\n  typedef t2 { type t; }\n  leaf a2 { type t2; }\n"
    if "grouping" in kinds:
        mbody += "  container cm { uses g; }\n"
    if "identity" in kinds:
        mbody += "  leaf rm { type identityref { base x; } }\n  identity mine { base x; }\n"
    incs = subs + ["user"]
    rnd.shuffle(incs)
    files.append(mod("m", mbody, includes=incs))
    ubody = ""
    if "typedef" in kinds:
        ubody += "  leaf q { type m:t; }\n"
    if "grouping" in kinds:
        ubody += "  container cq { uses m:g; }\n"
    if "identity" in kinds:
        ubody += "  leaf rq { type identityref { base m:x; } }\n  identity far { base m:x; }\n"
    files.append(mod("u", ubody, imports=[("m", "m")]))
    return files


def g_case_siblings(rnd):
    """sibling names that are equal ignoring case (in containers, lists, choices, the module root, augmented in from
    another module): renderings must still list them in one fixed order"""
    def variants(stem, k):
        vs = [stem, stem.upper(), stem.capitalize(), stem[0] + stem[1:].upper()]
        return rnd.sample(vs, k)
    body = ""
    for nm in variants("mtu", rnd.randint(2, 4)):
        body += "  leaf %s { type string; }\n" % nm
    inner = "".join("    leaf %s { type int8; }\n" % nm for nm in variants("name", rnd.randint(2, 4)))
    body += "  container c {\n%s    leaf other { type string; }\n  }\n" % inner
    ks = variants("key", 3)
    body += "  list li { key %s; %s }\n" % (ks[0], " ".join("leaf %s { type string; }" % k for k in ks))
    body += "  choice ch { %s }\n" % " ".join("case %s { leaf in_%s { type string; } }" % (v, v) for v in variants("opt", rnd.randint(2, 3)))
    files = [mod("cs", body)]
    for i in range(rnd.randint(1, 2)):
        files.append(mod("ca%d" % i, "  augment /cs:c { leaf %s { type string; } }\n" % rnd.choice(["NAME%d" % i, "OTHER", "Other"]) +
                         "  augment /cs:c { leaf %s { type string; } }\n" % ("nAmE%d" % i), imports=[("cs", "cs")]))
    return files


def g_late_errors(rnd):
    """sets whose only errors come from the last phases of Process (augment without target or into a leaf, two augments
    adding one node, deviation without target, deviate add/delete/replace violations), or that depend on the
    IgnoreDeviateNotSupported option: repeated GetModule calls must keep giving the answer of a fresh set"""
    files = [mod("t", '  container c { leaf l { type string; default "a"; } leaf m { type string; } }\n'
                      '  leaf-list ll { type string; max-elements 5; }\n')]
    kinds = ["  augment /t:nowhere { leaf x { type string; } }\n",
             "  augment /t:c/t:l { leaf x { type string; } }\n",
             "  augment /t:c { leaf m { type string; } }\n",
             "  deviation /t:gone { deviate not-supported; }\n",
             '  deviation /t:c/t:l { deviate add { default "b"; } }\n',
             '  deviation /t:c/t:m { deviate delete { default "zz"; } }\n',
             "  deviation /t:ll { deviate delete { max-elements 7; } }\n",
             "  deviation /t:c/t:m { deviate not-supported; }\n",
             "  deviation /t:c { deviate not-supported; }\n  augment /t:c { leaf ok { type string; } }\n",
             "  augment /t:c { leaf fine { type string; } }\n"]
    for i in range(rnd.randint(1, 3)):
        files.append(mod("le%d" % i, "".join(rnd.sample(kinds, rnd.randint(1, 2))), imports=[("t", "t")]))
    return files


def g_many_revisions(rnd):
    """2..4 revisions of one module (one namespace), an importer: whatever is asked about the namespace gets one answer"""
    revs = rnd.sample(["2018-03-03", "2019-01-01", "2020-01-01", "2021-01-01", "2022-06-06"], rnd.randint(2, 4))
    files = [mod("m", "  leaf in_%s { type string; }\n" % r.replace("-", "_"), rev=r) for r in revs]
    if rnd.random() < 0.3:
        files.append(mod("m", "  leaf undated { type string; }\n"))
    files.append(mod("imp", "  leaf x { type string; }\n", imports=[("m", "m")]))
    return files


def g_same_typedefs(rnd):
    """the same typedef (same name, same restriction) defined in several modules and used by a leaf in each: listings
    of types must put them in one fixed order"""
    tds = rnd.sample(['typedef percentage { type uint8 { range "0..100"; } }', 'typedef name { type string { length 1..64; } }',
                      'typedef flag { type boolean; default true; }', 'typedef ratio { type decimal64 { fraction-digits 2; } }'],
                     rnd.randint(1, 3))
    files = []
    for i in range(rnd.randint(2, 4)):
        body = "\n" * rnd.randint(0, 3)
        for td in tds:
            if rnd.random() < 0.85:
                nm = td.split()[1]
                body += "  %s\n  leaf %s_%d { type %s; }\n" % (td, nm, i, nm)
        body += "  leaf plain%d { type string; }\n" % i
        files.append(mod(rnd.choice(["ty%d", "aa%d", "zz%d"]) % i, body))
    return files


def g_enum_bits(rnd):
    """enumerations and bits, among them bits that share an explicit position (goyang accepts that): what the type answers
    about names and values is the same on every call and every run"""
    files = []
    for mi in range(rnd.randint(1, 2)):
        body = ""
        for ti in range(rnd.randint(1, 3)):
            nb = rnd.randint(2, 5)
            poss = [rnd.choice([0, 1, 1, 2, 3, 3, 7]) for _ in range(nb)]
            bits = " ".join("bit %s%d { position %d; }" % (rnd.choice(["b", "flag", "x"]), j, poss[j]) if rnd.random() < 0.8
                            else "bit auto%d;" % j for j in range(nb))
            body += "  typedef bt%d_%d { type bits { %s } }\n  leaf lb%d_%d { type bt%d_%d; }\n" % (mi, ti, bits, mi, ti, mi, ti)
        ne = rnd.randint(2, 4)
        enums = " ".join("enum e%d { value %d; }" % (j, j * rnd.choice([1, 3]) - 2) if rnd.random() < 0.6 else "enum a%d;" % j
                         for j in range(ne))
        body += "  leaf le%d { type enumeration { %s } }\n" % (mi, enums)
        body += "  leaf lu%d { type union { type bits { bit p { position 4; } bit q { position 4; } bit r; } type int8; } }\n" % mi
        files.append(mod("eb%d" % mi, body))
    return files


def g_random(rnd):
    return files_of_schema(sg.random_schema(rnd, n_modules=rnd.randint(2, 4)))


def g_random_faulty(rnd):
    files = g_random(rnd)
    r = rnd.random()
    if r < 0.4 and len(files) > 1:
        # a module that others import is not loaded (harness cwd is empty, so it cannot be found)
        files.pop(rnd.randrange(len(files)))
    elif r < 0.8:
        # unknown types / duplicate leaves sprinkled into several files
        out = []
        for name, text in files:
            lines = text.split("\n")
            for _ in range(rnd.randint(0, 2)):
                idx = [i for i, l in enumerate(lines) if l.strip().startswith("leaf ")]
                if not idx:
                    break
                i = rnd.choice(idx)
                if rnd.random() < 0.5:
                    lines[i] = re.sub(r"type [a-z0-9]+;", "type nope%d;" % rnd.randint(0, 3), lines[i], count=1)
                else:
                    lines.insert(i, lines[i])
            out.append((name, "\n".join(lines)))
        files = out
    else:
        # identities added on top of a random schema
        files = files + [f for f in g_identities(rnd)]
    return files


GENS = [("random", g_random, 8), ("random-faulty", g_random_faulty, 3), ("identities", g_identities, 2),
        ("deviate-delete-add", g_dev_delete_add, 1), ("two-deviators", g_two_deviators, 2), ("two-augmenters", g_two_augmenters, 2),
        ("dup-names", g_dup_names, 1), ("errors-multi", g_errors_multi, 2), ("missing-imports", g_missing_imports, 2),
        ("two-revisions", g_two_revisions, 1), ("typedefs", g_typedefs, 1),
        ("ident-shared-prefix", g_ident_shared_prefix, 2), ("typedef-cycles", g_typedef_cycles, 2), ("rev-norev", g_rev_norev, 2),
        ("posix-patterns", g_posix_patterns, 2), ("identity-rings", g_identity_rings, 2), ("superseded", g_superseded, 2),
        ("deferred-augments", g_deferred_augments, 2), ("submodule-clash", g_submodule_clash, 2),
        ("case-siblings", g_case_siblings, 2), ("late-errors", g_late_errors, 2), ("many-revisions", g_many_revisions, 2),
        ("same-typedefs", g_same_typedefs, 1), ("enum-bits", g_enum_bits, 1)]
# families whose defects only show as a difference between runs with the SAME input: more repeats
REPEATS = {"ident-shared-prefix": 6, "typedef-cycles": 6, "rev-norev": 5, "identities": 5, "posix-patterns": 6, "typedefs": 5,
           "identity-rings": 6, "deferred-augments": 8, "submodule-clash": 8,
           "case-siblings": 6, "many-revisions": 6, "enum-bits": 6}
# how many orders of a case are also run with a Process in between (default 1)
INCREMENTAL = {"superseded": 6, "rev-norev": 3, "two-revisions": 3}
# always present, whatever the seed draws
CORPUS = [("ident-shared-prefix", g_ident_shared_prefix, 6), ("typedef-cycles", g_typedef_cycles, 6), ("rev-norev", g_rev_norev, 4),
          ("posix-patterns", g_posix_patterns, 6), ("identity-rings", g_identity_rings, 6), ("superseded", g_superseded, 4),
          ("deferred-augments", g_deferred_augments, 8), ("submodule-clash", g_submodule_clash, 8),
          ("case-siblings", g_case_siblings, 6), ("late-errors", g_late_errors, 8), ("many-revisions", g_many_revisions, 6),
          ("same-typedefs", g_same_typedefs, 8), ("enum-bits", g_enum_bits, 8)]


def go_line(files, opts="-", order=None):
    """`process` case: the texts in the order of [files]; [order] = indices in load order, "P" = a Process call in
    between (a final Process is always appended)"""
    order = list(range(len(files))) if order is None else order
    ops = ["P" if i == "P" else "L%d" % i for i in order] + ["P"]
    toks = ["process", opts, ",".join(ops), str(len(files))]
    for n, t in files:
        toks += [hx(n), hx(t)]
    return " ".join(toks)


def strip_ids(x):
    if isinstance(x, dict):
        return {k: strip_ids(v) for k, v in x.items() if k != "id"}
    if isinstance(x, list):
        return [strip_ids(v) for v in x]
    return x


def first_diff(a, b, path=""):
    if type(a) != type(b):
        return path, a, b
    if isinstance(a, dict):
        for k in sorted(set(a) | set(b)):
            if a.get(k) != b.get(k):
                return first_diff(a.get(k), b.get(k), path + "/" + k)
    elif isinstance(a, list):
        if len(a) != len(b):
            return path + "[len]", a, b
        for i, (x, y) in enumerate(zip(a, b)):
            if x != y:
                return first_diff(x, y, "%s[%d]" % (path, i))
    return path, a, b


def canon_out(line, files, order=None):
    """canonical form of one `process` observation: load results by file name, the dump after the LAST Process"""
    if not line.startswith("{"):
        return dict(raw=line.split(" @")[0] if line.startswith("PANIC") else line)
    j = json.loads(line)
    order = list(range(len(files))) if order is None else order
    loads = {}
    for i, st in zip([i for i in order if i != "P"], j["loads"]):
        loads.setdefault(files[i][0], []).append(st)
    return dict(loads={k: sorted(v) for k, v in loads.items()}, runs=j["runs"][-1:])


POS = re.compile(r"^(.*?):(-?\d+):(-?\d+)$")


def errlist_problems(run):
    """the error list on its own: ordered by (file, numeric line, numeric col), no duplicates"""
    out = []
    errs = run.get("errors") or []
    if len(set(errs)) != len(errs):
        out.append("duplicate error strings: %r" % [e for e in errs if errs.count(e) > 1][:2])
    keys = []
    for p in run.get("errpos") or []:
        m = POS.match(p)
        if m:
            keys.append((m.group(1).encode(), int(m.group(2)), int(m.group(3))))
    for x, y in zip(keys, keys[1:]):
        if x > y:
            out.append("positions out of order: %r before %r" % (x, y))
            break
    return out


def orders_for(n, rnd, max_perms):
    idx = list(range(n))
    if n <= 4:
        perms = [list(p) for p in itertools.permutations(idx)]
        perms.remove(idx)
        if len(perms) > max_perms:
            perms = rnd.sample(perms, max_perms)
    else:
        perms = [list(reversed(idx))]
        seen = {tuple(idx), tuple(perms[0])}
        while len(perms) < max_perms:
            p = idx[:]
            rnd.shuffle(p)
            if tuple(p) not in seen:
                seen.add(tuple(p))
                perms.append(p)
    return perms


def metamorphic(res, cases, rnd, k, max_perms):
    """cases: list of (gen name, files, opts).  Returns stats."""
    lines, index = [], []
    for ci, (gen, files, opts) in enumerate(cases):
        n = len(files)
        for rep in range(max(k, REPEATS.get(gen, 0))):
            lines.append(go_line(files, opts))
            index.append((ci, list(range(n))))
        perms = orders_for(n, rnd, max_perms)
        for p in perms:
            lines.append(go_line(files, opts, p))
            index.append((ci, p))
        # the same sources with a Process in between ("load order + intermediate Process"): the final outcome must be
        # that of loading everything at once
        if n > 1:
            for p in ([list(range(n))] + perms)[:INCREMENTAL.get(gen, 1)]:
                cut = rnd.randint(1, n - 1)
                q = p[:cut] + ["P"] + p[cut:]
                lines.append(go_line(files, opts, q))
                index.append((ci, q))
    tmp = tempfile.mkdtemp(prefix="c05-")
    try:
        outs = lib.run_go(lines, cwd=tmp)
    finally:
        shutil.rmtree(tmp, ignore_errors=True)
    per = {}
    for (ci, order), o in zip(index, outs):
        per.setdefault(ci, []).append((order, o))
    stats = dict(cases=len(cases), runs=len(lines), differing_cases=0, id_only_differences=0, by_gen={}, status={}, errlist_problems=0,
                 crashes=0, max_files=0, with_errors=0, identity_lists=0, signatures={})
    reported = {}
    for ci, (gen, files, opts) in enumerate(cases):
        runs = per[ci]
        g = stats["by_gen"].setdefault(gen, dict(cases=0, differing=0))
        g["cases"] += 1
        stats["max_files"] = max(stats["max_files"], len(files))
        canon = []
        for order, o in runs:
            if o.startswith("CRASH") or o == "NOT-RUN":
                stats["crashes"] += 1
            canon.append(canon_out(o, files, order))
        c0 = canon[0]
        st = "raw:" + c0["raw"][:20] if "raw" in c0 else ("err" if c0["runs"] and c0["runs"][-1]["errors"] else
                                                         ("loaderr" if any(s != ["ok"] for s in c0["loads"].values()) else "ok"))
        stats["status"][st] = stats["status"].get(st, 0) + 1
        if "runs" in c0 and c0["runs"]:
            r0 = c0["runs"][-1]
            if r0["errors"]:
                stats["with_errors"] += 1
            for m in r0.get("modules") or []:
                stats["identity_lists"] += sum(1 for i in (m.get("identities") or []) if len(i["values"]) > 1)
        # the error list on its own, in every run
        for (order, o), c in zip(runs, canon):
            for r in c.get("runs", []):
                probs = errlist_problems(r)
                if probs:
                    stats["errlist_problems"] += 1
                    if "errlist" not in reported:
                        reported["errlist"] = 1
                        res.violation("error list not ordered by (file, line, col) / not free of duplicates [%s]: %s; errors=%r" %
                                      (gen, probs[0], r["errors"][:6]),
                                      dict(kind="errlist", gen=gen, files=files, opts=opts, order=order, problems=probs, errors=r["errors"]))
                    break
        # all runs identical
        ref_order, ref = runs[0][0], canon[0]
        bad = None
        for (order, o), c in zip(runs[1:], canon[1:]):
            if c != ref:
                if strip_ids(c) == strip_ids(ref):
                    stats["id_only_differences"] += 1
                    continue
                bad = (order, c)
                break
        if bad is None:
            continue
        stats["differing_cases"] += 1
        g["differing"] += 1
        order, c = bad
        path, a, b = first_diff(strip_ids(ref), strip_ids(c))
        same_order = order == ref_order
        key = (gen, re.sub(r"\[\d+\]", "[]", path)[:60], same_order)
        stats["signatures"][str(key)] = stats["signatures"].get(str(key), 0) + 1
        if key in reported or len(reported) >= 8:
            continue
        reported[key] = 1
        what = ("%s of the same %d sources differ at %s: %s  vs  %s  [generator %s, files %s]" %
                ("two runs in the SAME load order" if same_order else "load orders %s and %s" % (ref_order, order),
                 len(files), path, json.dumps(a)[:160], json.dumps(b)[:160], gen, [n for n, _ in files]))
        res.violation(what, dict(kind="metamorphic", gen=gen, files=files, opts=opts, order_a=ref_order, order_b=order,
                                 out_a=ref, out_b=c, diff_at=path))
    return stats


# ============================================================================ part 2b: what the dump does not show
def probe_line(files, opts="-", order=None):
    order = list(range(len(files))) if order is None else order
    toks = ["c05probe", opts, str(len(files))]
    for i in order:
        toks += [hx(files[i][0]), hx(files[i][1])]
    return " ".join(toks)


def probe_problems(j):
    """inside one observation: two prints of one entry agree, two namespace lookups agree, GetModule keeps answering as a
    fresh set would"""
    out = []
    for k, v in (j.get("print") or {}).items():
        if v[1] != "true":
            out.append("two Entry.Print calls on module %s give different text" % k)
    for path, v in (j.get("enums") or {}).items():
        if v[1] != "true":
            out.append("the enumeration/bits type of %s answers differently when asked twice: %s" % (path, v[0][:200]))
        if v[2] != "true":
            out.append("ValueMap() of the type of %s disagrees with Name(): %s" % (path, v[0][:200]))
    for ns, v in (j.get("byns") or {}).items():
        if v[0] != v[1]:
            out.append("FindModuleByNamespace(%s) answers %s, then %s" % (ns, v[0][:80], v[1][:80]))
    for k, r in (j.get("getmod") or {}).items():
        if not (r["first"] == r["second"] == r["fresh"]):
            out.append("GetModule(%s): first call %s; second call %s; fresh set %s" % (k, r["first"][:120], r["second"][:120], r["fresh"][:120]))
        if r["flipped"] != r["fresh_flipped"]:
            out.append("GetModule(%s) after flipping IgnoreDeviateNotSupported: %s; fresh set with that option: %s" %
                       (k, r["flipped"][:120], r["fresh_flipped"][:120]))
    return out


def probe_part(res, cases, rnd, k, max_perms):
    lines, index = [], []
    for ci, (gen, files, opts) in enumerate(cases):
        n = len(files)
        for _ in range(max(k, REPEATS.get(gen, 0))):
            lines.append(probe_line(files, opts))
            index.append((ci, list(range(n))))
        for p in orders_for(n, rnd, max_perms):
            lines.append(probe_line(files, opts, p))
            index.append((ci, p))
    tmp = tempfile.mkdtemp(prefix="c05p-")
    try:
        outs = lib.run_go(lines, cwd=tmp)
    finally:
        shutil.rmtree(tmp, ignore_errors=True)
    stats = dict(cases=len(cases), runs=len(lines), differing_cases=0, internal_problems=0, getmodule_answers=0, namespace_lookups=0,
                 namespace_clashes=0, prints=0, signatures={})
    per = {}
    for (ci, order), o in zip(index, outs):
        per.setdefault(ci, []).append((order, o))
    reported = {}
    for ci, (gen, files, opts) in enumerate(cases):
        runs = per[ci]
        parsed = [(o, json.loads(x) if x.startswith("{") else dict(raw=x.split(" @")[0])) for o, x in runs]
        j0 = parsed[0][1]
        stats["getmodule_answers"] += 5 * len(j0.get("getmod") or {})
        stats["namespace_lookups"] += len(j0.get("byns") or {})
        stats["namespace_clashes"] += sum(1 for v in (j0.get("byns") or {}).values() if v[0].startswith("ERR"))
        stats["prints"] += len(j0.get("print") or {})
        what = None
        for o, j in parsed:
            probs = probe_problems(j)
            if probs:
                stats["internal_problems"] += 1
                what = ("probe", probs[0], o, o, j, j)
                break
        if what is None:
            for o, j in parsed[1:]:
                if j != j0:
                    stats["differing_cases"] += 1
                    path, a, b = first_diff(j0, j)
                    what = ("diff", "%s differ at %s: %s  vs  %s" % (
                        "two runs in the SAME load order" if o == parsed[0][0] else "load orders %s and %s" % (parsed[0][0], o),
                        path, json.dumps(a)[:200], json.dumps(b)[:200]), parsed[0][0], o, j0, j)
                    break
        if what is None:
            continue
        key = (gen, what[0], re.sub(r"\W+", " ", what[1])[:40])
        stats["signatures"][str(key)] = stats["signatures"].get(str(key), 0) + 1
        if key in reported or len(reported) >= 4:
            continue
        reported[key] = 1
        res.violation("%s [generator %s, files %s]" % (what[1], gen, [n for n, _ in files]),
                      dict(kind="probe", gen=gen, files=files, opts=opts, order_a=what[2], order_b=what[3], out_a=what[4], out_b=what[5]))
    return stats


# ============================================================================ part 2c: histories (loads, Process / GetModule in between)
DATES = ["2018-03-03", "2019-01-01", "2020-01-01", "2021-06-01", "2022-02-02"]


def _g_body(k, same):
    """the grouping g of the k-th revision: leaf x always; type/default of x and the extra nodes depend on k"""
    if same:
        k = 0
    b = '    leaf x { type string;%s }\n' % ("" if k == 0 else ' default "r%d";' % k)
    for j in range(k):
        b += "    leaf-list y%d { type uint8; }\n" % j
    if k >= 2:
        b += "    container deep%d { leaf z { type int8; } }\n" % k
    return b


def g_regrouped(rnd):
    """a module whose `uses` refer to groupings of ANOTHER source that exists in several revisions (import without
    revision-date; include of a submodule; a grouping of the imported module that itself uses a grouping of a module
    with several revisions): what a uses statement denotes is settled by the sources, not by when Process was called"""
    variant = rnd.choice(["import", "import", "include", "chain"])
    nrev = rnd.choice([2, 2, 3])
    revs = sorted(rnd.sample(DATES, nrev))
    if rnd.random() < 0.25:
        revs[0] = None
    same = rnd.random() < 0.15
    users = ["  container c { uses %sg; }\n", "  list l { key x; uses %sg; }\n",
             "  grouping mine { uses %sg; leaf own { type string; } }\n  container k { uses mine; }\n",
             "  container tgt { }\n  augment /a:tgt { uses %sg; }\n", "  rpc op { input { uses %sg; } }\n",
             "  choice ch { case k1 { uses %sg; } }\n", "  uses %sh;\n"]
    files, ask = [], ["a"]
    if variant == "import":
        for k, r in enumerate(revs):
            files.append(mod("p", "  grouping g {\n%s  }\n  grouping h { container in { uses g; } }\n" % _g_body(k, same), rev=r))
        body = "".join(u % "p:" for u in rnd.sample(users, rnd.randint(1, 3)))
        files.insert(rnd.randint(0, len(files)), mod("a", body, imports=[("p", "p")]))
        if rnd.random() < 0.5:
            files.append(mod("b", "  container cb { uses p:g; }\n", imports=[("p", "p")]))
            ask.append("b")
    elif variant == "include":
        for k, r in enumerate(revs):
            files.append(mod("s", "  grouping g {\n%s  }\n  grouping h { container in { uses g; } }\n" % _g_body(k, same),
                             sub_of="a", prefix="a", rev=r))
        body = "".join(u % "" for u in rnd.sample(users, rnd.randint(1, 3)))
        files.insert(rnd.randint(0, len(files)), mod("a", body, includes=["s"]))
    else:
        for k, r in enumerate(revs[:2]):
            files.append(mod("q", "  grouping g {\n%s  }\n" % _g_body(k, same), rev=r))
        files.append(mod("p", "  grouping g { container via { uses q:g; } }\n  grouping h { uses g; }\n", imports=[("q", "q")]))
        body = "".join(u % "p:" for u in rnd.sample(users[:3] + users[4:], rnd.randint(1, 2)))
        files.insert(rnd.randint(0, len(files)), mod("a", body, imports=[("p", "p")]))
    return dict(files=files, ask=ask, variant=variant)


HIST_GENS = [("regrouped", g_regrouped), ("superseded", lambda rnd: dict(files=g_superseded(rnd), ask=["a"], variant="types")),
             ("rev-norev", lambda rnd: dict(files=g_rev_norev(rnd), ask=["imp1"], variant="bare"))]


def hist_line(files, ops, opts="-", pathspec="-"):
    toks = ["c05hist", opts, pathspec, ",".join(ops), str(len(files))]
    for n, t in files:
        toks += [hx(n), hx(t)]
    return " ".join(toks)


def hist_canon(line, files, ops):
    """load results per file name (as a multiset), the dump after the last Process without entry ids"""
    if not line.startswith("{"):
        return dict(raw=line.split(" @")[0])
    j = json.loads(line)
    loads = {}
    for op, st in zip([o for o in ops if o[0] in "LR"], j["loads"]):
        key = files[int(op[1:])][0] if op[0] == "L" else unhx(op[1:]).decode()
        loads.setdefault(key, []).append(st)
    return dict(loads={k: sorted(v) for k, v in loads.items()}, run=strip_ids(j["run"]), sources=j.get("sources"))


def histories(n, ask, rnd, cap):
    """all load orders x every place for ONE intermediate step (Process, or GetModule of a using module), some with two"""
    out = []
    steps = ["P"] + ["G" + hx(a) for a in ask]
    for perm in itertools.permutations(range(n)):
        loads = ["L%d" % i for i in perm]
        for cut in range(1, n):
            for st in steps:
                out.append(loads[:cut] + [st] + loads[cut:] + ["P"])
        if n >= 3:
            c1 = rnd.randint(1, n - 2)
            c2 = rnd.randint(c1 + 1, n - 1)
            out.append(loads[:c1] + [rnd.choice(steps)] + loads[c1:c2] + [rnd.choice(steps)] + loads[c2:] + ["P"])
    if len(out) > cap:
        out = rnd.sample(out, cap)
    return out


def history_part(res, rnd, n_cases, cap):
    cases = []
    for name, g in HIST_GENS:
        r2 = random.Random("hist-" + name)
        k = n_cases if name == "regrouped" else max(2, n_cases // 3)
        for i in range(k):
            cases.append((name, g(r2 if i < (k + 1) // 2 else rnd)))
    lines, index = [], []
    for ci, (name, c) in enumerate(cases):
        n = len(c["files"])
        batch = ["L%d" % i for i in range(n)] + ["P"]
        for ops in [batch, batch] + [["L%d" % i for i in reversed(range(n))] + ["P"]] + histories(n, c["ask"], rnd, cap):
            lines.append(hist_line(c["files"], ops))
            index.append((ci, ops))
    tmp = tempfile.mkdtemp(prefix="c05h-")
    try:
        outs = lib.run_go(lines, cwd=tmp)
    finally:
        shutil.rmtree(tmp, ignore_errors=True)
    stats = dict(cases=len(cases), runs=len(lines), differing_cases=0, by_variant={}, with_errors=0, crashes=0, signatures={})
    per = {}
    for (ci, ops), o in zip(index, outs):
        per.setdefault(ci, []).append((ops, o))
    reported = {}
    for ci, (name, c) in enumerate(cases):
        files = c["files"]
        v = "%s/%s" % (name, c["variant"])
        stats["by_variant"][v] = stats["by_variant"].get(v, 0) + 1
        runs = [(ops, o, hist_canon(o, files, ops)) for ops, o in per[ci]]
        ref_ops, ref_o, ref = runs[0]
        if "raw" in ref:
            stats["crashes"] += 1
        elif ref["run"] and ref["run"]["errors"]:
            stats["with_errors"] += 1
        for ops, o, cn in runs[1:]:
            if cn == ref:
                continue
            stats["differing_cases"] += 1
            path, a, b = first_diff(ref, cn)
            key = (v, re.sub(r"\[\d+\]", "[]", path)[:50])
            stats["signatures"][str(key)] = stats["signatures"].get(str(key), 0) + 1
            if key not in reported and len(reported) < 4:
                reported[key] = 1
                res.violation("the same %d sources give a different final outcome after the history %s than when loaded at once (%s): "
                              "differ at %s: %s  vs  %s  [generator %s, files %s]" %
                              (len(files), ",".join(ops), ",".join(ref_ops), path, json.dumps(a)[:160], json.dumps(b)[:160], v,
                               [n for n, _ in files]),
                              dict(kind="history", gen=v, files=files, opts="-", pathspec="-", ops_a=ref_ops, ops_b=ops, out_a=ref, out_b=cn,
                                   diff_at=path))
            break
    return stats


# ============================================================================ part 2d: modules found through a search path with dir/... entries
def tree_layout(rnd):
    """a source tree whose sub-directories (depth 1..3) hold the modules of several projects; common modules exist as
    differing copies in two or more of the directories (vendored copies); every module is asked for by NAME and found
    through the search path: ROOT/..., several dir/... entries, a mixture with plain directories, plain ones only"""
    dirs = rnd.sample(["models", "vendor/acme", "vendor/zeta/yang", "third_party", "a-first", "zz/last", "models/sub"], rnd.randint(2, 4))
    commons = rnd.sample(["common-types", "base-ids", "units"], rnd.randint(1, 2))
    files, owners = [], []
    holders = {c: set(rnd.sample(range(len(dirs)), rnd.randint(2, len(dirs)))) for c in commons}
    if rnd.random() < 0.15:
        holders[commons[0]] = {rnd.randrange(len(dirs))}         # control: one copy only
    identical = rnd.random() < 0.1                                # control: all copies equal
    for di, d in enumerate(dirs):
        for c in commons:
            if di in holders[c]:
                v = 0 if identical else di
                body = ('  typedef percent { type uint8 { range "0..%d"; } default %d; }\n  identity kind;\n%s' %
                        (100 - 10 * v, v, "".join("  identity k%d { base kind; }\n" % j for j in range(v + 1))))
                dated = rnd.random() < 0.15
                rev = "2020-0%d-01" % (di + 1) if dated else None
                text = mod(c, body, prefix="cm", rev=rev)[1]
                files.append(("%s/%s%s.yang" % (d, c, "@" + rev if dated else ""), text))
        for oi in range(rnd.randint(1, 2)):
            me = "own%d%d" % (di, oi)
            imps = [("c%d" % i, c) for i, c in enumerate(commons) if rnd.random() < 0.8] or [("c0", commons[0])]
            body = "".join("  leaf load_%s { type %s:percent; }\n  leaf kind_%s { type identityref { base %s:kind; } }\n" % (p, p, p, p)
                           for p, _ in imps)
            files.append(("%s/%s.yang" % (d, me), mod(me, body, imports=imps)[1]))
            owners.append(me)
    tops = sorted({d.split("/")[0] for d in dirs})
    style = rnd.choice(["root", "root", "tops", "mixed", "plain"])
    if style == "root":
        path = [".+"]
    elif style == "tops":
        path = [t + "+" for t in rnd.sample(tops, len(tops))]
    elif style == "mixed":
        path = [rnd.choice(dirs), ".+"] if rnd.random() < 0.5 else [".+", rnd.choice(dirs)]
    else:
        path = rnd.sample(dirs, len(dirs))
    asked = rnd.sample(owners, min(len(owners), rnd.randint(2, 4)))
    explicit = rnd.random() < 0.25
    if explicit:
        asked.insert(rnd.randint(0, len(asked)), commons[0])
    return dict(files=files, path=path, asked=asked, style=style, between=not explicit)


def hexcomps(p):
    return "." if p == "." else "/".join(hx(c) for c in p.split("/"))


def find_line(lay, names):
    path = ";".join(hexcomps(e[:-1]) + "+" if e.endswith("+") else hexcomps(e) for e in lay["path"])
    return "c05find %s %s %s" % (path, ";".join(hexcomps(f) for f, _ in lay["files"]), ",".join(hx(n) for n in names))


def tree_orders(asked, rnd, max_perms, between=True):
    base = [["R" + hx(a) for a in asked]]
    for p in orders_for(len(asked), rnd, max_perms):
        base.append(["R" + hx(asked[i]) for i in p])
    out = [b + ["P"] for b in base]
    # the same requests with a Process in between -- not when a module that the others import is itself asked for: once
    # a Process has loaded it on demand, Read reports it as a duplicate (registry behaviour, C13), which is a different
    # load result but not a different outcome
    for b in (base[:3] if between else []):
        cut = rnd.randint(1, len(b) - 1)
        out.append(b[:cut] + ["P"] + b[cut:] + ["P"])
    return out


def tree_part(res, rnd, n_cases, max_perms):
    cases = [tree_layout(random.Random("tree-%d" % i) if i < n_cases // 2 else rnd) for i in range(n_cases)]
    lines, index = [], []
    for ci, lay in enumerate(cases):
        for ops in tree_orders(lay["asked"], rnd, max_perms, lay["between"]):
            lines.append(hist_line(lay["files"], ops, pathspec=";".join(lay["path"])))
            index.append((ci, ops))
    tmp = tempfile.mkdtemp(prefix="c05t-")
    try:
        outs = lib.run_go(lines, cwd=tmp)
    finally:
        shutil.rmtree(tmp, ignore_errors=True)
    per = {}
    for (ci, ops), o in zip(index, outs):
        per.setdefault(ci, []).append((ops, o))
    stats = dict(cases=len(cases), runs=len(lines), differing_cases=0, model_mismatches=0, model_lookups=0, by_style={}, with_errors=0,
                 duplicated_names_loaded=0, crashes=0, signatures={})
    # the model's answer for every module name the implementation loaded in any run, and for every name asked for
    wanted = []
    for ci, lay in enumerate(cases):
        names = set(lay["asked"])
        for ops, o in per[ci]:
            if o.startswith("{"):
                names |= {k for k in (json.loads(o).get("sources") or {}) if "@" not in k}
        wanted.append(sorted(names))
    model = lib.run_ml([find_line(lay, names) for lay, names in zip(cases, wanted)])
    reported = {}

    def report(key, what, rep):
        stats["signatures"][str(key)] = stats["signatures"].get(str(key), 0) + 1
        if key not in reported and len(reported) < 4:
            reported[key] = 1
            res.violation(what, rep)

    for ci, lay in enumerate(cases):
        files = lay["files"]
        stats["by_style"][lay["style"]] = stats["by_style"].get(lay["style"], 0) + 1
        ans = {}
        for n, a in zip(wanted[ci], model[ci].split()):
            ans[n] = None if a == "-" else ("?" if a == "?" else "/".join(unhx(c).decode() for c in a.split("/")))
        runs = [(ops, o, hist_canon(o, files, ops)) for ops, o in per[ci]]
        ref_ops, ref_o, ref = runs[0]
        if "raw" in ref:
            stats["crashes"] += 1
        elif ref["run"] and ref["run"]["errors"]:
            stats["with_errors"] += 1
        base = [f.rsplit("/", 1)[1].split("@")[0].replace(".yang", "") for f, _ in files]
        stats["duplicated_names_loaded"] += sum(1 for k in (ref.get("sources") or {}) if base.count(k) > 1)
        rep = dict(kind="tree", gen="tree/" + lay["style"], files=files, opts="-", pathspec=";".join(lay["path"]), asked=lay["asked"],
                   model_line=find_line(lay, wanted[ci]))
        # model vs implementation: which file each loaded module name denotes
        bad_model = False
        for ops, o, cn in runs:
            for k, src in sorted((cn.get("sources") or {}).items()):
                if "@" in k or ans.get(k) == "?":
                    continue
                stats["model_lookups"] += 1
                if ans.get(k) != src:
                    stats["model_mismatches"] += 1
                    bad_model = True
                    report((lay["style"], "model"),
                           "module %s asked for by name with search path %s: the implementation took %s after the requests %s, the model "
                           "of findFile (a function of tree, path and name) gives %s; files below ROOT: %s" %
                           (k, lay["path"], src, [unhx(x[1:]).decode() if x != "P" else "Process" for x in ops], ans.get(k), [f for f, _ in files]),
                           dict(rep, ops_a=ref_ops, ops_b=ops, out_a=ref, out_b=cn, module=k, model=ans.get(k), impl=src))
                    break
            if bad_model:
                break
        # the property itself: every order of the requests, same outcome
        for ops, o, cn in runs[1:]:
            if cn != ref:
                stats["differing_cases"] += 1
                path, a, b = first_diff(ref, cn)
                report((lay["style"], "orders", re.sub(r"\[\d+\]", "[]", path)[:40]),
                       "the same modules asked for by name in two orders (%s / %s) with search path %s give different outcomes: differ at "
                       "%s: %s  vs  %s; files below ROOT: %s" %
                       ([unhx(x[1:]).decode() if x != "P" else "Process" for x in ref_ops],
                        [unhx(x[1:]).decode() if x != "P" else "Process" for x in ops], lay["path"], path,
                        json.dumps(a)[:160], json.dumps(b)[:160], [f for f, _ in files]),
                       dict(rep, ops_a=ref_ops, ops_b=ops, out_a=ref, out_b=cn, diff_at=path))
                break
    return stats


# ============================================================================ part 3: the command
def build_cli():
    os.makedirs(lib.WORK, exist_ok=True)
    rc, out = lib.sh(["go", "build", "-o", GOYANG, "."], cwd=lib.REPO, env=lib.GOENV, timeout=300)
    return rc == 0, out


CLI_FORMATS = ("tree", "types", "types --types_verbose", "types --types_debug")


def cli_run(tmp, fmt, names, flags=()):
    """fmt: a format name, optionally followed by that format's own options"""
    f = fmt.split()
    p = subprocess.run([GOYANG] + list(flags) + ["--format", f[0]] + f[1:] + names, cwd=tmp, stdout=subprocess.PIPE,
                       stderr=subprocess.PIPE, timeout=60)
    return dict(rc=p.returncode, stdout=p.stdout.decode("utf8", "replace"), stderr=p.stderr.decode("utf8", "replace"))


def cli_view(out, permuted):
    """what is compared: everything; but the command prints the errors of reading a file as it goes through its
    arguments, so for permuted arguments the lines of stderr are compared as a multiset"""
    if not permuted:
        return out
    return dict(out, stderr=sorted(out["stderr"].split("\n")))


def cli_case(files, rnd, k, max_perms, formats=CLI_FORMATS, args=None, flags=()):
    """files: (relative path, text) written below a fresh directory; args: indices of the files named on the command
    line (default all), permuted; flags: options before --format.
    returns (invocations, stdout seen, None or (fmt, order_a, order_b, out_a, out_b))"""
    tmp = tempfile.mkdtemp(prefix="c05cli-")
    try:
        for n, t in files:
            os.makedirs(os.path.dirname(os.path.join(tmp, n)), exist_ok=True)
            with open(os.path.join(tmp, n), "w") as f:
                f.write(t)
        idx = list(range(len(files))) if args is None else list(args)
        orders = [idx] * k + [[idx[i] for i in p] for p in orders_for(len(idx), rnd, max_perms)]
        n, printed = 0, False
        for fmt in formats:
            ref = None
            for o in orders:
                out = cli_run(tmp, fmt, [files[i][0] for i in o], flags)
                n += 1
                printed = printed or bool(out["stdout"].strip())
                if ref is None:
                    ref = (o, out)
                elif cli_view(out, o != ref[0]) != cli_view(ref[1], o != ref[0]):
                    return n, printed, (fmt, ref[0], o, ref[1], out)
        return n, printed, None
    finally:
        shutil.rmtree(tmp, ignore_errors=True)


# ---------------------------------------------------------------------------- directory layouts (files found on disk)
def layout_path_scan(rnd):
    """a search path made by scanning a directory tree (goyang -p ROOT), in which several directories hold a file for the
    same module name; the module is loaded on demand by an import"""
    dirs = rnd.sample(["vendor-a", "vendor-b", "vendor-c", "x/deep", "common", "zz"], rnd.randint(2, 4))
    files = []
    for i, d in enumerate(dirs):
        files.append(("lib/%s/common.yang" % d, mod("common", "  typedef t { type %s; }\n  leaf from_%d { type string; }\n" %
                                                   (["string", "int8", "boolean", "uint32"][i % 4], i))[1]))
        if rnd.random() < 0.4:
            files.append(("lib/%s/only%d.yang" % (d, i), mod("only%d" % i, "  leaf o { type string; }\n")[1]))
    main = mod("main", "  leaf x { type c:t; }\n", imports=[("c", "common")])[1]
    files.append(("top/main.yang", main))
    return dict(files=files, args=[len(files) - 1], flags=["-p", "lib"])


def layout_rejected(rnd):
    """files read by path; one of them is rejected; the good ones import modules that are only on disk in the same
    directory (found because reading a file puts its directory on the search path)"""
    d = rnd.choice(["dir", "a/b"])
    files = [("%s/helper.yang" % d, mod("helper", "  typedef t { type string; }\n")[1])]
    args = []
    for i in range(rnd.randint(1, 2)):
        files.append(("%s/good%d.yang" % (d, i), mod("good%d" % i, "  leaf g { type h:t; }\n", imports=[("h", "helper")])[1]))
        args.append(len(files) - 1)
    for i in range(rnd.randint(1, 2)):
        bad = rnd.choice(["module broken%d { namespace \"urn:b\"; prefix b; leaf x { type string; }\n" % i,      # no closing brace
                          "module broken%d { namespace \"urn:b\"; prefix b; bogus-statement 1; }\n" % i,
                          "module broken%d { prefix b; leaf x { type string; } leaf { } }\n" % i,
                          "container broken%d { }\n" % i])
        files.append(("%s/broken%d.yang" % (d, i), bad))
        args.append(len(files) - 1)
    if rnd.random() < 0.5:
        files.append(("other/fine.yang", mod("fine", "  leaf f { type string; }\n")[1]))
        args.append(len(files) - 1)
    rnd.shuffle(args)
    return dict(files=files, args=args, flags=[])


LAYOUTS = [("path-scan", layout_path_scan), ("rejected-file", layout_rejected)]


def cli_layouts(res, rnd, n_each, k, max_perms, stats):
    reported = {}
    for name, g in LAYOUTS:
        r2 = random.Random("layout-" + name)
        for i in range(n_each):
            lay = g(r2 if i < n_each // 2 else rnd)
            stats["layout_cases"] = stats.get("layout_cases", 0) + 1
            n, printed, bad = cli_case(lay["files"], rnd, k, max_perms, formats=("tree", "types"), args=lay["args"], flags=lay["flags"])
            stats["invocations"] += n
            stats["with_output"] += 1 if printed else 0
            if bad is None:
                continue
            stats["differing_cases"] += 1
            fmt, oa, ob, a, b = bad
            key = (name, fmt, oa == ob)
            stats["signatures"][str(key)] = stats["signatures"].get(str(key), 0) + 1
            if key in reported or len(reported) >= 3:
                continue
            reported[key] = 1
            which = "stdout" if a["stdout"] != b["stdout"] else ("stderr" if a["stderr"] != b["stderr"] else "exit status")
            res.violation("goyang %s --format %s: %s differs between %s; files on disk %s [layout %s]" %
                          (" ".join(lay["flags"]), fmt, which,
                           "two runs with the SAME arguments" if oa == ob else "argument orders %s and %s" %
                           ([lay["files"][i][0] for i in oa], [lay["files"][i][0] for i in ob]),
                           [f for f, _ in lay["files"]], name),
                          dict(kind="cli", gen="layout-" + name, files=lay["files"], format=fmt, flags=lay["flags"], order_a=oa, order_b=ob,
                               out_a=a, out_b=b))


def cli_part(res, cases, rnd, k, max_perms):
    ok, out = build_cli()
    stats = dict(built=ok, cases=0, invocations=0, differing_cases=0, with_output=0, signatures={})
    if not ok:
        stats["build_log"] = out[-800:]
        return stats
    reported = {}
    for gen, files, opts in cases:
        if len(files) > 6:
            continue
        stats["cases"] += 1
        n, printed, bad = cli_case(files, rnd, k, max_perms)
        stats["invocations"] += n
        stats["with_output"] += 1 if printed else 0
        if bad is None:
            continue
        stats["differing_cases"] += 1
        fmt, oa, ob, a, b = bad
        key = (gen, fmt, oa == ob)
        stats["signatures"][str(key)] = stats["signatures"].get(str(key), 0) + 1
        if key in reported or len(reported) >= 4:
            continue
        reported[key] = 1
        which = "stdout" if a["stdout"] != b["stdout"] else ("stderr" if a["stderr"] != b["stderr"] else "exit status")
        res.violation("goyang --format %s: %s differs between %s of %s [generator %s]" %
                      (fmt, which, "two runs with the SAME arguments" if oa == ob else "argument orders %s and %s" % (oa, ob),
                       [n_ for n_, _ in files], gen),
                      dict(kind="cli", gen=gen, files=files, format=fmt, order_a=oa, order_b=ob, out_a=a, out_b=b))
    cli_layouts(res, rnd, 10 if k <= 3 else 60, k + 3, max_perms, stats)
    return stats


# ============================================================================ driver
def gen_cases(rnd, n):
    weights = [w for _, _, w in GENS]
    cases = []
    for name, f, cnt in CORPUS:
        r2 = random.Random("corpus-" + name)
        cases += [(name, f(r2), "-") for _ in range(cnt)]
    for _ in range(n):
        name, f, _w = rnd.choices(GENS, weights=weights)[0]
        files = f(rnd)
        opts = rnd.choice(["-", "-", "-", "n", "c"])
        cases.append((name, files, opts))
    return cases


def run(res, tier, seed, proof):
    rnd = random.Random(seed)
    quick = tier != "thorough"
    es_stats, es_evals = check_errsort(res, rnd, tier)
    cases = gen_cases(rnd, 300 if quick else 16000)
    k, max_perms = (3, 8) if quick else (5, 23)
    mm = metamorphic(res, cases, rnd, k, max_perms)
    pr = probe_part(res, cases[:230] if quick else cases[:4000], rnd, 3, 2)
    hi = history_part(res, rnd, 12 if quick else 150, 40 if quick else 200)
    tr = tree_part(res, rnd, 30 if quick else 600, 6 if quick else 23)
    cli_cases = cases[:118] if quick else cases[:1500]
    cli = cli_part(res, cli_cases, rnd, 3 if quick else 4, 4 if quick else 8)
    cov = dict(
        evaluations=es_evals + mm["runs"] + pr["runs"] + hi["runs"] + tr["runs"] + tr["model_lookups"] + cli["invocations"],
        distinct_nontrivial=len({json.dumps(f) for _, f, _ in cases if len(f) > 1}) + es_stats["distinct_sets"],
        rule="(1) errorSort: lists of 0..40 error texts (positioned with canonical numerals; text-only; unpositioned messages of "
             "goyang; odd numerals 01/+1/-0/2^63/non-numeric; mixtures; duplicates; shuffles; the _refuted witnesses) through "
             "Entry.GetErrors and through the extracted model: exact equality on every list, one answer per set of texts.  (2) module sets from schema_gen.random_schema (2-4 modules, submodules, "
             "groupings, augments, deviations), faulty variants (module missing, unknown types, repeated leaves) and tie/conflict "
             "generators (same identity name in several modules, deviate delete+add, several modules deviating or augmenting one "
             "node, duplicate names, errors in several files and on one line with lines 9/10/100, missing imports, two revisions, "
             "typedef chains, same-named identities in modules sharing an own prefix, typedef cycles of length 2-4, one module "
             "name with and without revision plus importers, typedefs restricted by several typedefs/leaves that add "
             "posix-patterns (openconfig extension) or patterns only, identity derivation rings of 3-5 inside a module "
             "and through mutually importing modules, a module superseded by a newer revision under union/identityref users, several "
             "modules whose augments wait for a node grafted by a later-sorting module and go into that same node, one top-level "
             "name defined in two submodules of a module; the last eight also as a fixed corpus); every case additionally with a Process between two loads (final outcome = batch): each processed k times in one order and in all (<= 4 files, capped) or sampled load orders; all "
             "dumps byte-identical (ids included; id-only differences counted), error list ordered and duplicate-free.  (3) the "
             "goyang command with --format tree / types / types --types_verbose / types --types_debug on a prefix of the same sets, "
             "repeated and with permuted arguments; and on directory layouts: a search path scanned with -p over directories holding "
             "the same module name (import loaded on demand), files read by path next to a rejected file whose directory holds the "
             "imports.  (2b) the "
             "c05probe command on the same sets (incl. bits sharing a position): Entry.Print twice, every enumeration/bits type asked twice and ValueMap against Name, FindModuleByNamespace twice per namespace, GetModule twice and "
             "after flipping IgnoreDeviateNotSupported against fresh sets; compared inside one run, across repeats and load orders.  "
             "(2c) histories (c05hist): sets in which a uses statement refers to a grouping of a source with 2-3 revisions (import "
             "without revision-date, include of a submodule, a grouping of the import that uses a grouping of a module with two "
             "revisions; uses in container/list/own grouping/augment/rpc input/case/module top; revisions with equal groupings as a "
             "control) and the superseded / rev-norev sets: every load order x every place for one intermediate Process or "
             "GetModule(using module), some with two, against loading everything at once: same final dump.  (2d) search-path trees: "
             "2-4 directories of depth 1-3 below one root, common modules as differing copies in several of them (some in files "
             "name@date.yang; one copy / equal copies as controls), own modules importing them, search path ROOT/... | several "
             "dir/... | dir/... mixed with a plain directory | plain directories; the own modules (sometimes a common one) are asked "
             "for by name in all (capped) orders, some with a Process in between: the file every loaded module name denotes is "
             "compared with the extracted model (C05.lookup_fs over Model/File.v: a function of tree, path and name, "
             "C05_lookups_perm), and all orders must give the same dump and the same source files.  "
             "non-trivial = more than one file / distinct set of error texts",
        errorsort=es_stats, metamorphic=mm, probe=pr, histories=hi, search_path_trees=tr, cli=cli, k_repeats=k, max_perms=max_perms,
        samples=[dict(gen=g, files=[n for n, _ in f]) for g, f, _ in cases[:3]])
    assumptions = [
        "reflect.DeepEqual on two error values of the same dynamic type built by errors.New / fmt.Errorf without %w is equality of "
        "their texts (errorSort removes an error that is DeepEqual to the last kept; the model compares texts)",
        "strconv.Atoi accepts [+-]?[0-9]+ within the 64-bit int range (the platform of the harness) and nothing else; "
        "strings.SplitN, string comparison and sort.Sort (any permutation in which no later element is Less than an earlier one) "
        "behave as modelled",
        "order independence of the whole of Process and of the CLI renderings is TESTED on the implementation (k repeated runs, "
        "permuted load orders), not proved; the theorems cover errorSort and the first phase of Process in the resolver model; "
        "the order dependences found earlier (missing imports, several modules deviating or augmenting one node, two revisions "
        "of a deviating module, the command printing one of two revisions, the order used by errorSort) are repaired in /repo: "
        "any recurrence is a VIOLATION",
        "search-path trees: the harness process runs in an empty current directory, so findFile never opens a file as named and "
        "never extends ms.Path (Spec/C05.v lookup_fs takes an empty current directory); every regular file is readable; "
        "ioutil.ReadDir lists a directory in byte order of the names (Model/File.v readDirAll).  Files named by path, and "
        "goyang -p (which expands a tree into plain directories before loading), are not part of this leg",
        "histories with several revisions of one module are outside the resolver model (Model/Schema.v has no revisions): the "
        "oracle is the implementation itself on the same sources loaded at once (any order), which the property says is the "
        "outcome of every history",
    ]
    return cov, assumptions


def replay(rep, res):
    kind = rep.get("kind")
    if kind in ("errsort", "errsort-set"):
        c = rep["case"]
        g, m = lib.run_go([c])[0], lib.run_ml([c])[0]
        print("case :", [unhx(t) for t in c.split()[1:]], "\nimpl :", [unhx(t) for t in g.split()[1:]],
              "\nmodel:", [unhx(t) for t in m.split()[1:]])
        ok = g == m
        if rep.get("other_case"):
            g2 = lib.run_go([rep["other_case"]])[0]
            print("other:", [unhx(t) for t in rep["other_case"].split()[1:]], "->", [unhx(t) for t in g2.split()[1:]])
            ok = ok and g2 == g
        return 0 if ok else 1
    files = [tuple(f) for f in rep["files"]]
    if kind == "cli":
        ok, out = build_cli()
        if not ok:
            print("goyang does not build:", out[-400:])
            return 1
        tmp = tempfile.mkdtemp(prefix="c05cli-")
        try:
            for n, t in files:
                os.makedirs(os.path.dirname(os.path.join(tmp, n)), exist_ok=True)
                open(os.path.join(tmp, n), "w").write(t)
            outs = {}
            for o in [rep["order_a"], rep["order_b"]] * 10:
                r = cli_run(tmp, rep["format"], [files[i][0] for i in o], rep.get("flags", ()))
                outs.setdefault(json.dumps(r, sort_keys=True), o)
        finally:
            shutil.rmtree(tmp, ignore_errors=True)
        for s, o in outs.items():
            print("order", o, "->", s[:600])
        return 0 if len(outs) == 1 else 1
    if kind == "probe":
        tmp = tempfile.mkdtemp(prefix="c05p-")
        try:
            orders = [rep["order_a"], rep["order_b"]] * 15
            outs = lib.run_go([probe_line(files, rep.get("opts", "-"), o) for o in orders], cwd=tmp, shards=1)
        finally:
            shutil.rmtree(tmp, ignore_errors=True)
        seen, bad = {}, False
        for o, x in zip(orders, outs):
            seen.setdefault(x, o)
            if x.startswith("{"):
                for pr_ in probe_problems(json.loads(x)):
                    bad = True
                    print("problem:", pr_)
                    break
        for x, o in seen.items():
            print("order", o, "->", x[:500])
        return 1 if (bad or len(seen) > 1) else 0
    if kind in ("history", "tree"):
        tmp = tempfile.mkdtemp(prefix="c05h-")
        try:
            opss = [rep["ops_a"], rep["ops_b"]] * 5
            outs = lib.run_go([hist_line(files, ops, rep.get("opts", "-"), rep.get("pathspec", "-")) for ops in opss], cwd=tmp, shards=1)
        finally:
            shutil.rmtree(tmp, ignore_errors=True)
        seen, bad = {}, False
        for ops, o in zip(opss, outs):
            seen.setdefault(json.dumps(hist_canon(o, files, ops), sort_keys=True), ops)
        if kind == "tree" and rep.get("module"):
            m = lib.run_ml([rep["model_line"]])[0]
            print("model:", m)
            for s_ in seen:
                if (json.loads(s_).get("sources") or {}).get(rep["module"]) != rep.get("model"):
                    bad = True
        for s_, ops in seen.items():
            j = json.loads(s_)
            print("history", ",".join(ops), "-> sources", j.get("sources"), "run", json.dumps(j.get("run", j))[:600])
        return 1 if (len(seen) > 1 or bad) else 0
    if kind in ("metamorphic", "errlist"):
        tmp = tempfile.mkdtemp(prefix="c05-")
        try:
            orders = [rep.get("order_a") or rep.get("order"), rep.get("order_b") or rep.get("order")] * 10
            lines = [go_line(files, rep.get("opts", "-"), o) for o in orders]
            outs = lib.run_go(lines, cwd=tmp, shards=1)
        finally:
            shutil.rmtree(tmp, ignore_errors=True)
        seen = {}
        bad = False
        for o, ln in zip(orders, outs):
            c = canon_out(ln, files, o)
            seen.setdefault(json.dumps(strip_ids(c), sort_keys=True), o)
            for r in c.get("runs", []):
                if errlist_problems(r):
                    bad = True
                    print("error list:", r["errors"])
        for s, o in seen.items():
            j = json.loads(s)
            print("order", o, "->", json.dumps(j.get("runs", j))[:700])
        return 1 if (len(seen) > 1 or bad) else 0
    print("nothing to replay:", rep.get("what"))
    return 1
