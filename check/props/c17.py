"""C17 — schema path lookup finds exactly the node the path names.

Per generated module set (check/props/schema_gen.py, plus the feature schemas below) three legs:
  impl    the resolver harness (`process`, option f) looks up, on the implementation, the absolute prefixed path of
          every node from every module that can name it, one-bad-step variants at every position and a sibling
          relative path, and tests POINTER identity of the result; any entry of `findviol` is a violation.
  tie     the same kind of queries, generated here from the implementation's dump (every node x every module and
          submodule that names its tree by a prefix, also started at nodes inside the trees with the prefix of the
          module whose text wrote the start node; the unprefixed absolute spelling from nodes of the tree and from
          the root entries of its submodules; bad-step variants; relative paths with several "..";
          paths that leave out the case step below a choice;
          one absolute path string from start nodes of one tree written in different (sub)modules that bind its
          prefix differently; '.' and '..' steps after existing and after missing steps, above the root; rpc/action
          input and output created on demand -- also by 'input/..' --, looked up again, and a step below the fresh
          node), are
          evaluated by Entry.Find (harness/go/c17.go `find17`, position recovered through Parent pointers) and by
          the extracted Schema.Find (harness/ml/cmd_c17.ml): found/not found, position, name and kind of the
          result must agree, and so must the two forests after the queries (frame of the on-demand creation).
  late    (implementation only) every set's lookups are repeated on a fresh module set that, after Process and after
          the module trees have been collected, loads an unrelated module, a rejected text and a missing file WITHOUT
          processing again: every lookup must return what it returned without the late load (positions recovered by
          pointer identity of the tree roots collected before) and the trees must be unchanged.
  getmodule (implementation only) the same with the tree of one module (usually one that others import) obtained through
          Modules.GetModule after Process and the other trees through ToEntry: every lookup must return the node of the
          tree GetModule handed out (positions recovered by pointer identity of that tree's root).
  path    (implementation only) every set's lookups are repeated on a fresh module set in which only some texts are
          parsed by the caller and the others lie on the search path (Modules.AddPath) and are found while the first and
          only Process resolves imports and includes: same results, same trees.
  revisions (implementation only; the core model has no revisions) text-level family: module lib loaded in 2-3
          revisions with partly different children -- every revision with shorthand choice members (also in an rpc
          input) and augments of its own tree, so that EVERY loaded revision must have gone through Augment and
          FixChoice --, users importing it with revision-date, without, and under two
          prefixes at once, many load orders; absolute paths through those import prefixes from the users' nodes
          (harness/go/c17.go `findrev`): a pinned import denotes exactly that revision's entry tree (identified by
          pointer), an unpinned one the latest revision's; a path that exists only in another revision finds nothing.
  choice-in-choice (tied to the model like every other set) constructed family choice_in_choice_schemas: a choice grafted
          DIRECTLY below a choice -- by an augment whose body is a choice or a uses of a grouping with a choice at its top
          level (also through a second grouping) --, host choices at the module top, in containers, lists, rpc
          input/output, notifications, explicit cases and shorthand containers, grafted by another module, the module
          itself or its submodule, alone or beside leaves/cases/a second choice, optionally followed by a further augment
          that reaches the grafted choice (or one of its shorthand members) through the implicit cases.  A set of a
          constructed family that the implementation rejects while the model processes it is a violation (an augment
          path, the absolute schema path of an existing node, was not found).
  big     (implementation only: the model has no memo tables, SIZE is outside it) module sets tied above are padded with
          tens of thousands of fresh-named nodes (leaves, uses of an empty grouping, containers, a mix) -- counts just
          below, at and above 2^16 (thorough: 2^17, 3*2^16 too) -- in the body of a module, in one of its containers or
          lists, or in a new module sorting before / after all others (Process converts in name order) that has its own
          choice with shorthand members, rpc and augments and is imported by one of the set's modules: every lookup must
          return what it returned without the padding, the padding module's nodes what they name by construction, and
          the harness' sweep find17Sweep (absolute path of every node from its module's root entry, from the node, from a
          sibling subtree and from the root entries of importing modules: pointer identity; '..' up to the root entry the
          walk started from; '../name') must be clean.
  oracle  the position the query was built from (or "nothing") is what both must return; the model forest must
          pass the extracted well-formedness check wf_forestb, the hypothesis of the theorems.
"""
import json
import os
import random

import lib
from props import schema_gen as sg

BAD = "no-such-node-zz"


# ------------------------------------------------------------------ feature schemas (always run)
def _m(name, prefix, ns, **kw):
    d = dict(name=name, prefix=prefix, ns=ns, belongs=None, imports=[], includes=[], body=[], augments=[], deviations=[])
    d.update(kw)
    return d


def _lf(n, cfg=None):
    return ("leaf", n, "string", cfg, None, None, None)


def feature_schemas():
    out = []
    # augments into a choice (shorthand and case), into an implicit case, into rpc input (created by the augment's
    # own lookup) and output, into an action below a list, from a submodule, chain of augments
    a = _m("a", "a", "urn:a", includes=["as1"], body=[
        ("container", "c", None, [_lf("l"), ("list", "li", "k", None, None, None, [_lf("k"), ("rpc", True, "act", None, [_lf("o")])])]),
        ("choice", "ch", None, None, None, [_lf("sh"), ("case", "cs", [_lf("x")]), ("container", "sc", None, [_lf("y")])]),
        ("rpc", False, "r", None, [_lf("o")]), ("rpc", False, "r2", [_lf("i")], None), ("rpc", False, "r3", None, None),
        ("notification", "nt", [_lf("n")])])
    as1 = _m("as1", "a", "", belongs="a", body=[("container", "subc", None, [_lf("sl")])],
             augments=[("/a:c", [_lf("from-sub")])])
    b = _m("b", "b", "urn:b", imports=[("xa", "a")], augments=[
        ("/xa:c", [("container", "g", None, [_lf("gl")])]), ("/xa:ch", [_lf("ag")]), ("/xa:ch", [("case", "acs", [_lf("al")])]),
        ("/xa:ch/xa:cs", [_lf("in-case")]), ("/xa:r/xa:input", [_lf("i")]), ("/xa:r/xa:output", [_lf("o2")]),
        ("/xa:c/xa:li/xa:act/xa:input", [_lf("ai")]), ("/xa:c/xa:g", [_lf("chain")]), ("/xa:subc", [_lf("into-sub")]),
        ("/xa:nt", [_lf("n2")])])
    out.append([a, as1, b])
    # groupings across modules, uses inside augment, nested choice in case
    g = _m("g", "g", "urn:g", body=[("grouping", 1, "gr", [("container", "gc", None, [_lf("gl")]),
                                                           ("choice", "gch", None, None, None, [_lf("ga"), _lf("gb")])])])
    u = _m("u", "u", "urn:u", imports=[("g", "g")], body=[("container", "top", None, [("uses", "g:gr")]),
                                                          ("rpc", False, "op", [("uses", "g:gr")], [("uses", "g:gr")])],
           augments=[("/u:top/u:gc", [("uses", "g:gr")])])
    out.append([g, u])
    # one prefix string bound to different modules by the (sub)modules whose nodes share one tree: module t says x = x1,
    # its submodule ts says x = x2, the augmenting module a says x = x3, the grouping's module gg says x = x4
    xs = [_m("x%d" % i, "x%d" % i, "urn:x%d" % i, body=[("container", "top", None, [_lf("foo"), _lf("only%d" % i)])]) for i in (1, 2, 3, 4)]
    gg = _m("gg", "gg", "urn:gg", imports=[("x", "x4")], body=[("grouping", 7, "grp", [("container", "fromg", None, [_lf("gl")])])])
    t = _m("t", "t", "urn:t", imports=[("x", "x1"), ("gg", "gg")], includes=["ts"],
           body=[("container", "c", None, [_lf("n"), ("uses", "gg:grp")]), ("rpc", False, "op", [_lf("i")], None)])
    ts = _m("ts", "t", "", belongs="t", imports=[("x", "x2")], body=[("container", "fromsub", None, [_lf("l")])],
            augments=[("/t:c", [_lf("subg")])])
    a2 = _m("a", "a", "urn:a", imports=[("t", "t"), ("x", "x3")], augments=[("/t:c", [_lf("g"), ("container", "gc", None, [_lf("gl2")])]),
                                                                         ("/t:op/t:input", [_lf("gi")])])
    out.append(xs + [gg, t, ts, a2])
    # directories WITHOUT children inside a grouping used twice (and inside the bodies of two augments that use one
    # grouping), one copy filled later by an augment: the other copy must stay empty
    ge = ("grouping", 9, "ge", [("container", "box", None, []), ("list", "li", None, None, None, None, []),
                                ("choice", "how", None, None, None, [("case", "plain", [])]),
                                ("rpc", True, "reset", [], []), _lf("id")])
    for tgt in ("one", "two"):
        oth = "two" if tgt == "one" else "one"
        m = _m("m", "m", "urn:m", body=[ge, ("container", "one", None, [("uses", "ge")]), ("container", "two", None, [("uses", "ge")]),
                                       ("notification", "nt", [])],
               augments=[("/m:%s/m:box" % tgt, [_lf("x")]), ("/m:%s/m:li" % tgt, [_lf("y")]), ("/m:%s/m:how/m:plain" % tgt, [_lf("p")]),
                         ("/m:%s/m:reset/m:input" % tgt, [_lf("force")]), ("/m:%s/m:reset/m:output" % oth, [_lf("res")]),
                         ("/m:%s/m:how" % oth, [_lf("sh")])])
        out.append([m])
    # augments that apply only after the first FixChoice (their paths cross an implicit case) and graft choices with
    # shorthand members themselves; a third module grafts into those
    a3 = _m("a", "a", "urn:a", body=[("container", "top", None, [("choice", "c", None, None, None, [("container", "x", None, [_lf("l")])]),
                                                                 _lf("plain")]),
                                     ("rpc", False, "r", [("choice", "ic", None, None, None, [("container", "il", None, [])])], None)],
            augments=[("/a:top", [_lf("extra")])])
    b3 = _m("b", "b", "urn:b", imports=[("a", "a")], body=[_lf("start")], augments=[
        ("/a:top/a:c/a:x/a:x", [("choice", "d", None, None, None, [_lf("y"), ("container", "z", None, [_lf("w")]), ("case", "k", [_lf("kk")])]),
                                _lf("fromb")]),
        ("/a:r/a:input/a:ic/a:il/a:il", [("choice", "d2", None, None, None, [_lf("y2")])])])
    c3 = _m("c", "c", "urn:c", imports=[("a", "a"), ("b", "b")], augments=[
        ("/a:top/a:c/a:x/a:x/b:d", [_lf("late"), ("container", "lc", None, [("choice", "e", None, None, None, [_lf("deep")])])]),
        ("/a:top/a:c/a:x/a:x/b:d/b:z/b:z", [_lf("third")])])
    out.append([a3, b3, c3])
    h = _m("h", "h", "urn:h", body=[("grouping", 11, "gh", [("container", "slot", None, [])]), ("container", "p", None, []),
                                   ("container", "q", None, [])],
           augments=[("/h:p", [("uses", "gh")]), ("/h:q", [("uses", "gh")]), ("/h:q/h:slot", [_lf("late")])])
    out.append([h])
    return out


# ------------------------------------------------------------------ positions and queries
def tok_steps(steps):
    return [("C" + s[1].encode().hex()) if s[0] == "C" else s[0] for s in steps]


def walk(node, steps, out):
    out.append((tuple(steps), node))
    for c in node.get("children") or []:
        walk(c, steps + [("C", c["name"])], out)
    if node.get("input"):
        walk(node["input"], steps + [("I",)], out)
    if node.get("output"):
        walk(node["output"], steps + [("O",)], out)


def step_name(s):
    return s[1] if s[0] == "C" else ("input" if s[0] == "I" else "output")


def show_pos(mn, steps):
    return "/".join([sg.hx(mn)] + tok_steps(steps))


def expect(mn, steps, node):
    return "%s:%s:%s" % (show_pos(mn, steps), sg.hx(node["name"]), node["kind"])


def prefixes_for(schema, frm, owner):
    """prefixes by which (sub)module frm names module owner, per FindModuleByPrefix + module()"""
    byname = {m["name"]: m for m in schema}
    own = lambda m: m["name"] if m["belongs"] is None else m["belongs"]
    out = []
    if own(frm) == owner:
        out.append(frm["prefix"])
    seen = {frm["prefix"]}
    for p, mn in frm["imports"]:
        if p in seen:
            continue
        seen.add(p)
        if mn in byname and own(byname[mn]) == owner:
            out.append(p)
    return out


def resolve_abs(schema, mods, ctxname, startmod, path):
    """what an absolute path denotes for a start node written in (sub)module ctxname of tree startmod, read off the
    dump: expected result string, "-" for nothing, None when the answer would need an input/output created on demand"""
    byname = {m["name"]: m for m in schema}
    own = lambda m: m["name"] if m["belongs"] is None else m["belongs"]
    parts = path.split("/")[1:]
    pfx = parts[0].split(":", 1)[0] if ":" in parts[0] else ""
    ctx = byname.get(ctxname)
    if ctx is None:
        return None
    if pfx == "":
        tree = own(byname[startmod]) if startmod in byname else startmod
    elif pfx == ctx["prefix"]:
        tree = own(ctx)
    else:
        tree = None
        for p, mn in ctx["imports"]:
            if p == pfx:
                tree = own(byname[mn]) if mn in byname else None
                break
        if tree is None:
            return "-"
    if tree not in mods:
        return "-"
    node, st = mods[tree]["tree"], []
    for part in parts:
        name = part.split(":", 1)[1] if ":" in part else part
        if part == ".":
            continue
        if part == "..":
            return None
        if node.get("hasrpc"):
            if name not in ("input", "output"):
                return "-"
            if not node.get(name):
                return None
            node, st = node[name], st + [("I",) if name == "input" else ("O",)]
            continue
        if name == ".":
            continue
        nxt = [c for c in node.get("children") or [] if c["name"] == name]
        if name in ("", "..") or not nxt:
            return "-"
        node, st = nxt[0], st + [("C", name)]
    return expect(tree, tuple(st), node)


def queries_for(schema, dump, rnd, budget):
    """list of dict(go=<tokens>, ml_start=(mod, steps), path, want, kind); ctx for the model comes from the Go answer"""
    mods = {m["name"]: m for m in dump["modules"] if not m["sub"]}
    byname = {m["name"]: m for m in schema}
    qs, lazy = [], []

    def q(kind, start_go, start_ml, path, want):
        qs.append(dict(kind=kind, go=start_go, ml=start_ml, path=path, want=want))
    for mn in sorted(mods):
        nodes = []
        walk(mods[mn]["tree"], [], nodes)
        index = {st: nd for st, nd in nodes}
        for st, nd in nodes:
            if not st:
                continue
            for frm in schema:
                for pfx in prefixes_for(schema, frm, mn):
                    parts = [pfx + ":" + step_name(s) for s in st]
                    start_ml = (frm["name"] if frm["belongs"] is None else frm["belongs"], ())
                    q("abs", (frm["name"], ()), start_ml, "/" + "/".join(parts), expect(mn, st, nd))
                    if len(parts) <= 6 and (frm["name"] == mn or rnd.random() < 0.2):
                        for i in range(len(parts)):
                            bad = list(parts)
                            bad[i] = rnd.choice([pfx + ":" + BAD, pfx + ":", BAD, pfx + ":.."]) if i else pfx + ":" + BAD
                            q("bad", (frm["name"], ()), start_ml, "/" + "/".join(bad), "-")
            # the unprefixed absolute spelling: from the root and from a random node of the same tree, and from the
            # root entries of the module's submodules (their own trees: the lookup continues in the owner's tree)
            plain = "/" + "/".join(step_name(s) for s in st)
            if all(":" not in step_name(s) for s in st):
                q("absplain", (mn, ()), (mn, ()), plain, expect(mn, st, nd))
                if rnd.random() < 0.3:
                    p0 = rnd.choice(nodes)[0]
                    q("absplain", (mn, p0), (mn, p0), plain, expect(mn, st, nd))
                for sub in schema:
                    if sub["belongs"] == mn and rnd.random() < 0.5:
                        q("absplain-sub", (sub["name"], ()), (sub["name"], ()), plain, expect(mn, st, nd))
            # on-demand input/output
            if nd.get("hasrpc"):
                for io, tag in (("input", "I"), ("output", "O")):
                    if not nd.get(io):
                        lazy.append((mn, st, io, tag))
        # relative paths between nodes of one tree
        pool = [st for st, _ in nodes]
        for _ in range(min(len(pool) * 2, 60)):
            p, t = rnd.choice(pool), rnd.choice(pool)
            k = 0
            while k < len(p) and k < len(t) and p[k] == t[k]:
                k += 1
            if rnd.random() < 0.3 and k > 0:
                k -= 1          # not the deepest common ancestor: still names the same node
            parts = [".."] * (len(p) - k) + [step_name(s) for s in t[k:]]
            path = "/".join(parts) if parts else "."
            if rnd.random() < 0.2:
                path = "./" + path
            q("rel", (mn, p), (mn, p), path, expect(mn, t, index[t]))
            if rnd.random() < 0.4:
                parts2 = parts + [BAD] if rnd.random() < 0.5 or not t[k:] else parts[:-1] + [BAD] + parts[-1:]
                q("relbad", (mn, p), (mn, p), "/".join(parts2), "-")
    # absolute prefixed paths started INSIDE the trees: the prefix is resolved in the module whose text wrote the start
    # node (for a node that came in through uses, an augment or a submodule: not the module owning the tree), which the
    # dump tells by the file of the node's statement; the implementation's own report of that module is cross-checked
    allnodes = []
    for mn in sorted(mods):
        ns = []
        walk(mods[mn]["tree"], [], ns)
        allnodes += [(mn, st, nd) for st, nd in ns]
    targets = [x for x in allnodes if x[1]]
    index_all = {(mn, st): nd for mn, st, nd in allnodes}
    for mn, st, nd in rnd.sample(allnodes, min(len(allnodes), 40)):
        ctxname = nd.get("src", "").split(".yang")[0]
        if ctxname not in byname or not targets:
            continue
        for tmn, tst, tnd in rnd.sample(targets, min(len(targets), 5)):
            for pfx in prefixes_for(schema, byname[ctxname], tmn):
                parts = [pfx + ":" + step_name(x) for x in tst]
                qs.append(dict(kind="abs-inside", go=(mn, st), ml=(mn, st), path="/" + "/".join(parts),
                               want=expect(tmn, tst, tnd), ctx=ctxname))
    special = []

    def sq(kind, start, path, want, ctx=None):
        special.append(dict(kind=kind, go=start, ml=start, path=path, want=want, ctx=ctx))
    # (d) ONE absolute path string looked up from several start nodes of one tree that were written in different
    # (sub)modules: each resolves the first prefix through its own module's imports, whatever was looked up before
    strings = [x["path"] for x in qs if x["kind"] == "abs-inside"]
    bytree = {}
    for mn, st, nd in allnodes:
        cx = nd.get("src", "").split(".yang")[0]
        if cx in byname:
            bytree.setdefault(mn, {}).setdefault(cx, []).append(st)
    for mn in sorted(bytree):
        ctxs = sorted(bytree[mn])
        if len(ctxs) < 2:
            continue
        cand = sorted(set(strings))
        rnd.shuffle(cand)
        # prefixes that at least two of the tree's (sub)modules know
        pf = {}
        for cx in ctxs:
            for p in [byname[cx]["prefix"]] + [p for p, _ in byname[cx]["imports"]]:
                pf.setdefault(p, set()).add(cx)
        shared = [p for p in sorted(pf) if len(pf[p]) > 1]
        for tmn, tst, tnd in rnd.sample(targets, min(len(targets), 12)) if shared else []:
            p = rnd.choice(shared)
            cand.insert(0, "/" + "/".join(p + ":" + step_name(x) for x in tst))
        for path in cand[:14]:
            order = [(cx, rnd.choice(bytree[mn][cx])) for cx in ctxs]
            rnd.shuffle(order)
            order = order + order[:1]                   # and the first one once more
            ans = [(cx, st, resolve_abs(schema, mods, cx, mn, path)) for cx, st in order]
            if any(w is None for _, _, w in ans) or all(w == "-" for _, _, w in ans):
                continue
            ans.sort(key=lambda x: x[2] == "-")          # successful lookups first
            for cx, st, w in ans:
                sq("same-string", (mn, st), path, w, cx)
    # a step below a choice names a CASE: a path that leaves the case step out names nothing, even when the name is that
    # of a member of one of the cases (explicit cases named differently from their members)
    for mn, st, nd in allnodes:
        for i in range(1, len(st)):
            cs, parent = index_all.get((mn, st[:i])), index_all.get((mn, st[:i - 1]))
            if not cs or not parent or cs["kind"] != "Case" or parent["kind"] != "Choice" or st[i][0] != "C":
                continue
            if any(c["name"] == st[i][1] for c in parent.get("children") or []):
                continue                  # a case of that name exists: the shortened path names something else
            if rnd.random() > 0.5:
                continue
            pfx = byname[mn]["prefix"]
            cut = st[:i - 1] + st[i:]
            sq("skip-case", (mn, ()), "/" + "/".join(pfx + ":" + step_name(x) for x in cut), "-")
            sq("skip-case", (mn, st[:i - 1]), "/".join(step_name(x) for x in st[i:]), "-")          # from the choice
            sq("skip-case", (mn, st[:i]), "../" + "/".join(step_name(x) for x in st[i:]), "-")      # from the case
            if i >= 2:
                sq("skip-case", (mn, st[:i - 2]), "/".join(step_name(x) for x in st[i - 2:i - 1] + st[i:]), "-")
    # (f) '.' and '..' are steps, not text: 'x/..' needs x to exist
    for mn in sorted(mods):
        nodes = []
        walk(mods[mn]["tree"], [], nodes)
        pfx = byname[mn]["prefix"]
        for st, nd in rnd.sample(nodes, min(len(nodes), 25)):
            if not st:
                continue
            parts = [pfx + ":" + step_name(x) for x in st]
            i = rnd.randrange(len(parts) + 1)
            root = (mn, ())
            sq("dd-missing", root, "/" + "/".join(parts[:i] + [pfx + ":" + BAD, ".."] + parts[i:]), "-")
            if i < len(parts):
                sq("dd-existing", root, "/" + "/".join(parts[:i] + [parts[i], ".."] + parts[i:]), expect(mn, st, nd))
            if i >= 1:
                sq("dot", root, "/" + "/".join(parts[:i] + ["."] + parts[i:]), expect(mn, st, nd))
            sq("dd-top", root, "/" + "/".join(parts[:1] + ["..", ".."] + parts), "-")
            # relative, from the node itself
            kids = [c["name"] for c in nd.get("children") or []]
            sq("dd-missing", (mn, st), BAD + "/..", "-")
            sq("dd-missing", (mn, st), "../" + BAD + "/../" + step_name(st[-1]), "-")
            sq("dd-root", (mn, st), "/".join([".."] * (len(st) + 1)), "-")
            sq("dd-root", (mn, st), "/".join([".."] * (len(st) + 1) + [step_name(st[0])]), "-")
            sq("dd-existing", (mn, st), "./../" + step_name(st[-1]) + "/.", expect(mn, st, nd))
            if kids and not nd.get("hasrpc"):
                k = rnd.choice(kids)
                sq("dd-existing", (mn, st), k + "/../" + k + "/..", expect(mn, st, nd))
                sq("dd-missing", (mn, st), k + "/" + BAD + "/../..", "-")
    if len(qs) > budget:
        keep = sorted(rnd.sample(range(len(qs)), budget))
        qs = [qs[i] for i in keep]
    qs += special
    for mn, st, io, tag in lazy:
        frm = byname[mn]
        pfx = frm["prefix"]
        parts = [pfx + ":" + step_name(s) for s in st] + [pfx + ":" + io]
        new = st + ((tag,),)
        want = "%s:%s:%s" % (show_pos(mn, new), sg.hx(io), "Input" if io == "input" else "Output")
        if rnd.random() < 0.4:
            # stepping into the missing input and straight out again: the rpc itself, and the input exists afterwards
            # (the forests are compared after the queries)
            q("lazy-dotdot", (mn, ()), (mn, ()), "/" + "/".join(parts + [".."]), expect(mn, st, dict(index_all[(mn, st)])))
            continue
        q("lazy", (mn, ()), (mn, ()), "/" + "/".join(parts), want)
        q("lazy-below", (mn, ()), (mn, ()), "/" + "/".join(parts + [pfx + ":" + BAD]), "-")
        q("lazy-again", (mn, st), (mn, st), io, want)
    return qs


def path_only(schema, rnd):
    """names of modules that can be left to the search path: reachable through imports/includes from the modules that
    stay explicitly loaded"""
    names = {m["name"] for m in schema}
    edges = {m["name"]: [x for _, x in m["imports"] if x in names] + [x for x in m["includes"] if x in names] for m in schema}
    wanted = {x for l in edges.values() for x in l}
    explicit = {n for n in names if n not in wanted or rnd.random() < 0.25}
    while True:
        seen, todo = set(explicit), list(explicit)
        while todo:
            for x in edges[todo.pop()]:
                if x not in seen:
                    seen.add(x)
                    todo.append(x)
        missing = sorted(names - seen)
        if not missing:
            break
        explicit.add(missing[0])
    return names - explicit


def go_find_case(schema, opts, qs, on_path=(), via_get=None):
    toks = ["find17", opts, str(len(schema))]
    for m in schema:
        mark = "@" if m["name"] in on_path else ("!" if m["name"] == via_get else "")
        toks += [mark + sg.hx(m["name"] + ".yang"), sg.hx(sg.render_module(m))]
    toks.append(str(len(qs)))
    for x in qs:
        mn, st = x["go"]
        toks += [sg.hx(mn), str(len(st))] + tok_steps(st) + [sg.hx(x["path"])]
    return " ".join(toks)


def ml_find_case(schema, opts, qs, ctxs):
    base = sg.model_case(schema, None, opts).split(" ")[1:]
    toks = ["find17"] + base + [str(len(qs))]
    for x, ctx in zip(qs, ctxs):
        mn, st = x["ml"]
        toks += [sg.hx(ctx), sg.hx(mn), str(len(st))] + tok_steps(st) + [sg.hx(x["path"])]
    return " ".join(toks)


# ------------------------------------------------------------------ features of a dump (coverage)
def features(schema, dump):
    f = dict(nodes=0, augmented=0, in_implicit_case=0, in_rpc_io=0, from_submodule=0, choice_members=0)
    subs = {m["name"] for m in schema if m["belongs"] is not None}
    for m in dump["modules"]:
        if m["sub"]:
            continue
        rootns = m["tree"]["ns"]

        def go(n, in_io, in_imp):
            f["nodes"] += 1
            if n["ns"] != rootns:
                f["augmented"] += 1
            if in_io:
                f["in_rpc_io"] += 1
            if in_imp:
                f["in_implicit_case"] += 1
            if n.get("src", "").split(".yang")[0] in subs:
                f["from_submodule"] += 1
            for c in n.get("children") or []:
                imp = n["kind"] == "Choice" and c["kind"] == "Case" and len(c.get("children") or []) == 1 \
                    and c["children"][0]["name"] == c["name"] and c["children"][0].get("src") == c.get("src")
                if n["kind"] == "Choice":
                    f["choice_members"] += 1
                go(c, in_io, in_imp or imp)
            for io in ("input", "output"):
                if n.get(io):
                    go(n[io], True, in_imp)
        go(m["tree"], False, False)
    return f


# ------------------------------------------------------------------ one batch
def check_batch(res, schemas, rnd, budget, stats):
    opts = "-"
    go1 = lib.run_go([sg.go_case(sc, opts="f") for sc in schemas])
    work, rejected, rich = [], [], {}
    for sc, line in zip(schemas, go1):
        st, canon, j = sg.canon_go(line)
        stats["status"][st] = stats["status"].get(st, 0) + 1
        if st not in ("ok", "err", "loaderr"):
            res.violation("implementation crashed on a generated module set: %s" % line[:300],
                          dict(kind="impl", schema=sc, impl=line[:2000]))
            continue
        if st != "ok":
            if id(sc) in stats["constructed"]:
                rejected.append((sc, line))
            continue
        run = j["runs"][-1]
        stats["impl_lookups"] += run["findcount"]
        if run["findviol"]:
            res.violation("Entry.Find did not return the node its path names: %s" % "; ".join(run["findviol"][:3]),
                          dict(kind="impl-find", schema=sc, findviol=run["findviol"]))
        for k, v in features(sc, run).items():
            stats["features"][k] = stats["features"].get(k, 0) + v
        qs = queries_for(sc, run, rnd, budget)
        work.append((sc, qs, canon))
        ft = features(sc, run)
        rich[id(sc)] = sum(1 for k in ("augmented", "in_implicit_case", "in_rpc_io") if ft[k] > 0)
    go2 = lib.run_go([go_find_case(sc, opts, qs) for sc, qs, _ in work])
    ml_cases, parsed = [], []
    for (sc, qs, _), line in zip(work, go2):
        if not line.startswith("{"):
            res.violation("find17 crashed on the implementation: %s" % line[:300], dict(kind="impl", schema=sc, impl=line[:2000]))
            parsed.append(None)
            ml_cases.append("find17 - 0 0 0")
            continue
        j = json.loads(line)
        rs = j["find"]
        ctxs = [r.split("|", 1)[0] for r in rs]
        parsed.append((j, [r.split("|", 1)[1] for r in rs], line, ctxs))
        ml_cases.append(ml_find_case(sc, opts, qs, ctxs))
    ml = lib.run_ml(ml_cases)
    # the same lookups once more on a fresh set that, after Process, loads an unrelated module, a rejected text and a
    # missing file WITHOUT processing again: the trees held by the caller stay the processed ones
    late = lib.run_go([go_find_case(sc, "l", qs) for sc, qs, _ in work])
    for (sc, qs, _), pj, lline in zip(work, parsed, late):
        if pj is None:
            continue
        rep = dict(kind="find17", schema=sc, queries=[dict(x, go=list(x["go"]), ml=list(x["ml"])) for x in qs], late=True)
        if not lline.startswith("{"):
            res.violation("find17 (late load) crashed on the implementation: %s" % lline[:300], rep)
            continue
        lj = json.loads(lline)
        lres = [r.split("|", 1)[1] for r in lj["find"]]
        stats["late_sets"] += 1
        bad = 0
        for x, g, l in zip(qs, pj[1], lres):
            if g != l and bad < 2:
                bad += 1
                res.violation("after a late Parse/Read without Process, Find(%r) from %s returned %s; before it %s (the path names %s)"
                              % (x["path"], x["go"], l, g, x["want"]), dict(rep, query=dict(x, go=list(x["go"]), ml=list(x["ml"])), impl=l))
        for r in lj["runs"]:
            r["modules"] = [m for m in r.get("modules") or [] if not m["name"].startswith("zz-late-")]
        if sg.canon_go(json.dumps(lj))[1] != sg.canon_go(pj[2])[1] and bad < 2:
            res.violation("the module trees changed by a late Parse/Read without Process", rep)
    # ... and with the tree of one module obtained through Modules.GetModule (after Process), the others through ToEntry:
    # lookups that lead into that module must return the nodes of the tree GetModule handed out
    pick = []
    for sc, _, _ in work:
        imported = sorted({mn for m in sc for _, mn in m["imports"]} & {m["name"] for m in sc if m["belongs"] is None})
        tops = sorted(m["name"] for m in sc if m["belongs"] is None)
        pick.append(rnd.choice(imported) if imported and rnd.random() < 0.8 else rnd.choice(tops))
    getrun = lib.run_go([go_find_case(sc, "-", qs, via_get=g) for (sc, qs, _), g in zip(work, pick)])
    for (sc, qs, _), pj, g, gline in zip(work, parsed, pick, getrun):
        if pj is None:
            continue
        rep = dict(kind="find17", schema=sc, queries=[dict(x, go=list(x["go"]), ml=list(x["ml"])) for x in qs], via_get=g)
        if not gline.startswith("{"):
            res.violation("find17 (GetModule) crashed on the implementation: %s" % gline[:300], rep)
            continue
        lj = json.loads(gline)
        if lj["runs"][-1]["errors"]:
            res.violation("GetModule(%s) after a clean Process reports errors: %s" % (g, lj["runs"][-1]["errors"][:2]), rep)
            continue
        stats["getmodule_sets"] += 1
        lres = [r.split("|", 1)[1] for r in lj["find"]]
        bad = 0
        for x, r0, l in zip(qs, pj[1], lres):
            if r0 != l and bad < 2:
                bad += 1
                res.violation("with the tree of %s taken from GetModule, Find(%r) from %s returned %s; the node of that tree is %s"
                              % (g, x["path"], x["go"], l, r0), dict(rep, query=dict(x, go=list(x["go"]), ml=list(x["ml"])), impl=l))
        if sg.canon_go(gline)[1] != sg.canon_go(pj[2])[1] and bad < 2:
            res.violation("the module trees differ after GetModule(%s)" % g, rep)
    # ... and on a fresh set where only some modules are loaded by the caller and the others are found on the search
    # path while the first (and only) Process resolves imports and includes
    onp = [sorted(path_only(sc, rnd)) for sc, _, _ in work]
    pathrun = lib.run_go([go_find_case(sc, "-", qs, set(o)) for (sc, qs, _), o in zip(work, onp)])
    for (sc, qs, _), pj, o, pline in zip(work, parsed, onp, pathrun):
        if pj is None or not o:
            continue
        rep = dict(kind="find17", schema=sc, queries=[dict(x, go=list(x["go"]), ml=list(x["ml"])) for x in qs], on_path=o)
        if not pline.startswith("{"):
            res.violation("find17 (modules on the search path) crashed on the implementation: %s" % pline[:300], rep)
            continue
        lj = json.loads(pline)
        if lj["runs"][-1]["errors"] or any(l.startswith("err") for l in lj["loads"]):
            res.violation("a module set that processes cleanly when every text is parsed does not when %s are found on the "
                          "search path: %s" % (o, (lj["runs"][-1]["errors"] or lj["loads"])[:2]), rep)
            continue
        stats["path_sets"] += 1
        lres = [r.split("|", 1)[1] for r in lj["find"]]
        bad = 0
        for x, g, l in zip(qs, pj[1], lres):
            if g != l and bad < 2:
                bad += 1
                res.violation("with %s found on the search path, Find(%r) from %s returned %s; with every text parsed %s"
                              % (o, x["path"], x["go"], l, g), dict(rep, query=dict(x, go=list(x["go"]), ml=list(x["ml"])), impl=l))
        if sg.canon_go(pline)[1] != sg.canon_go(pj[2])[1] and bad < 2:
            res.violation("the module trees differ when %s are found on the search path instead of parsed" % o, rep)
    for (sc, qs, canon0), pj, mline, mcase in zip(work, parsed, ml, ml_cases):
        if pj is None:
            continue
        j, gres, gline, gctx = pj
        rep = dict(kind="find17", schema=sc, queries=[dict(x, go=list(x["go"]), ml=list(x["ml"])) for x in qs])
        if not mline.startswith("ok wf="):
            res.violation("model did not process a module set the implementation accepts: %s" % mline[:200], rep)
            continue
        head, _, mforest = mline.partition(" | ")
        mt = head.split(" ")
        if mt[1] != "wf=1":
            res.violation("model forest fails wf_forestb (hypothesis of the C17 theorems) on a generated module set", rep)
        mres = mt[2:]
        if len(mres) != len(qs) or len(gres) != len(qs):
            res.violation("find17 answered %d/%d of %d queries" % (len(gres), len(mres), len(qs)), rep)
            continue
        bad = 0
        for x, g, m, cx in zip(qs, gres, mres, gctx):
            stats["queries"][x["kind"]] = stats["queries"].get(x["kind"], 0) + 1
            if x.get("ctx") and x["ctx"] != cx and bad < 3:
                bad += 1
                res.violation("the start node /%s of %s was written in %s, the implementation resolves prefixes in %s"
                              % ("/".join(step_name(y) for y in x["go"][1]), x["go"][0], x["ctx"], cx), rep)
            if g != x["want"] and bad < 3:
                bad += 1
                res.violation("Entry.Find(%r) from %s returned %s, the path names %s" % (x["path"], x["go"], g, x["want"]),
                              dict(rep, query=dict(x, go=list(x["go"]), ml=list(x["ml"])), impl=g, model=m))
            if g != m and bad < 3:
                bad += 1
                res.violation("model and implementation disagree on Find(%r) from %s: impl=%s model=%s" % (x["path"], x["go"], g, m),
                              dict(rep, query=dict(x, go=list(x["go"]), ml=list(x["ml"])), impl=g, model=m))
        st, canon, _ = sg.canon_go(gline)
        if st != "ok" or canon != mforest:
            res.violation("forests differ after the lookups (on-demand input/output): impl=%s model=%s" % ((canon or st)[:200], mforest[:200]),
                          dict(rep, impl=canon, model=mforest))
        stats["tied"] += 1
        if not bad and len(stats["pool"]) < 400:
            stats["pool"].append((sc, qs, gres, rich.get(id(sc), 0)))
    # module sets of the constructed families are valid by construction: when the implementation rejects one that the
    # model processes, an augment's target -- the absolute schema path of an existing node -- was not found
    if rejected:
        for (sc, line), mline in zip(rejected, lib.run_ml([ml_find_case(sc, opts, [], []) for sc, _ in rejected])):
            if mline.startswith("ok wf="):
                errs = []
                try:
                    errs = json.loads(line)["runs"][-1]["errors"]
                except Exception:
                    pass
                res.violation("a constructed module set that the model processes cleanly (every augment path names an "
                              "existing node) is rejected by the implementation: %s" % "; ".join(errs[:2])[:300],
                              dict(kind="rejected", schema=sc, errors=errs[:5]))
            stats["constructed_rejected_by_both"] += 0 if mline.startswith("ok wf=") else 1


# ------------------------------------------------------------------ big module sets (implementation-side oracle)
FILL = "zzf"


def filler_nodes(kind, count, mix_rnd=None):
    """count statements that convert to about `count` entries: leaves, uses of an empty grouping (the grouping is added by
    with_filler), containers holding one leaf (two entries each), or a mix"""
    out = []
    i = 0
    while count > 0:
        k = kind if kind != "mix" else mix_rnd.choice(["leaf", "leaf", "uses", "cont"])
        if k == "leaf":
            out.append(_lf("%s%d" % (FILL, i)))
            count -= 1
        elif k == "uses":
            out.append(("uses", FILL + "g"))
            count -= 1
        else:
            out.append(("container", "%s%d" % (FILL, i), None, [_lf("l")]))
            count -= 2
        i += 1
    return out


def with_filler(schema, spec):
    """the module set with `count` extra converted nodes that have fresh names and are siblings of existing nodes (or live
    in a module of their own), so that every position and every lookup of the original set is unchanged.
    spec = dict(where, module, cont, kind, count, seed): where = 'top' (body of `module`) | 'cont' (inside the top-level
    container/list `cont` of `module`) | 'first' / 'last' (a new unrelated module whose name sorts before / after all
    others; Process converts the modules in the order of their names)"""
    rnd = random.Random(spec.get("seed", 0))
    fill = filler_nodes(spec["kind"], spec["count"], rnd)
    grp = [("grouping", 99000, FILL + "g", [])] if any(x[0] == "uses" for x in fill) else []
    out = []
    for m in schema:
        if spec["where"] in ("top", "cont") and m["name"] == spec["module"]:
            m = dict(m)
            if spec["where"] == "top":
                m["body"] = list(m["body"]) + grp + fill
            else:
                body = []
                for n in m["body"]:
                    if n[0] in ("container", "list") and n[1] == spec["cont"]:
                        n = n[:-1] + (list(n[-1]) + fill,)
                    body.append(n)
                m["body"] = body + grp
        out.append(m)
    if spec["where"] in ("first", "last"):
        name = fill_module_name(spec)
        box = ("container", "box", None, fill if spec.get("cont") else [_lf("inbox")])
        body = grp + [box] + ([] if spec.get("cont") else fill) + [
            ("choice", "zch", None, None, None, [_lf("zsh"), ("container", "zsc", None, [_lf("l")]), ("case", "zcs", [_lf("zcl")])]),
            ("rpc", False, "zop", [_lf("i")], None), _lf("own")]
        out.append(_m(name, name, "urn:" + name, body=body, augments=[("/%s:box" % name, [_lf("zaug")]), ("/%s:zch" % name, [_lf("zag")]),
                                                                      ("/%s:zop/%s:output" % (name, name), [_lf("zo")])]))
        if spec.get("importer"):
            out = [dict(m, imports=list(m["imports"]) + [(FILL + "p", name)]) if m["name"] == spec["importer"] else m for m in out]
    return out


def fill_module_name(spec):
    return ("A0" if spec["where"] == "first" else "zzzz9") + FILL


def fill_module_positions():
    """(steps, kind) of the nodes of the padding module's processed tree apart from the padding itself"""
    C = lambda *xs: tuple(("C", x) for x in xs)
    return [(C("box"), "Directory"), (C("box", "zaug"), "Leaf"), (C("zch"), "Choice"), (C("zch", "zsh"), "Case"),
            (C("zch", "zsh", "zsh"), "Leaf"), (C("zch", "zsc"), "Case"), (C("zch", "zsc", "zsc"), "Directory"),
            (C("zch", "zsc", "zsc", "l"), "Leaf"), (C("zch", "zcs"), "Case"), (C("zch", "zcs", "zcl"), "Leaf"),
            (C("zch", "zag"), "Case"), (C("zch", "zag", "zag"), "Leaf"), (C("zop"), "Directory"),
            (C("zop") + (("I",),), "Input"), (C("zop") + (("I",), ("C", "i")), "Leaf"), (C("zop") + (("O",),), "Output"),
            (C("zop") + (("O",), ("C", "zo")), "Leaf"), (C("own"), "Leaf")]


ENTRY_CACHE_MARKS = [1 << 16]          # sizes around which the family is placed (powers of two a memo might be bounded by)


def big_specs(rnd, tier, pool):
    """(index into pool, spec): sets with augments, implicit cases and rpc input/output get filler at every kind of
    place, in counts just below, at and above the marks"""
    marks = ENTRY_CACHE_MARKS if tier == "quick" else ENTRY_CACHE_MARKS + [1 << 17]
    out = []
    idx = list(range(len(pool)))
    rnd.shuffle(idx)
    idx.sort(key=lambda i: -min(3, pool[i][3]))          # richest sets first
    counts = []
    for mk in marks:
        counts += [mk - rnd.randint(200, 400), mk + rnd.randint(0, 40), mk + rnd.randint(300, 5000)]
    if tier != "quick":
        counts += [1000, 20000, marks[0] + 1, marks[0] * 3]
    wheres = ["first", "cont", "top", "last"]
    kinds = ["leaf", "uses", "mix", "cont"]
    rnd.shuffle(wheres)
    rnd.shuffle(kinds)
    for k, cnt in enumerate(counts):
        if not idx:
            break
        i = idx[k % len(idx)]
        sc = pool[i][0]
        where = wheres[k % len(wheres)]
        tops = [m for m in sc if m["belongs"] is None]
        m = rnd.choice(tops)
        conts = [n[1] for n in m["body"] if n[0] in ("container", "list")]
        if where == "cont" and not conts:
            withc = [(x, [n[1] for n in x["body"] if n[0] in ("container", "list")]) for x in tops]
            withc = [(x, c) for x, c in withc if c]
            if withc:
                m, conts = rnd.choice(withc)
            else:
                where = "top"
        out.append((i, dict(where=where, module=m["name"], cont=(rnd.choice(conts) if where == "cont" else
                                                                   (rnd.random() < 0.5 if where in ("first", "last") else None)),
                            kind=kinds[k % len(kinds)], count=cnt, seed=rnd.randrange(1 << 30),
                            importer=rnd.choice(tops)["name"] if where in ("first", "last") and rnd.random() < 0.8 else None)))
    return out


def filler_queries(schema, spec, rnd):
    """lookups of the padding nodes and of the nodes of the padding module, expectation by construction"""
    return fill_module_queries(spec, rnd) + fill_node_queries(schema, spec, rnd)


def fill_module_queries(spec, rnd):
    if spec["where"] not in ("first", "last"):
        return []
    mn = fill_module_name(spec)
    pos = fill_module_positions()
    qs = []
    starts = [((mn, ()), mn)] + [((mn, st), mn) for st, _ in rnd.sample(pos, 3)]
    if spec.get("importer"):
        starts.append(((spec["importer"], ()), FILL + "p"))
    for st, kind in pos:
        want = "%s:%s:%s" % (show_pos(mn, st), sg.hx(step_name(st[-1])), kind)
        for start, pfx in starts:
            path = "/" + "/".join(pfx + ":" + step_name(x) for x in st)
            qs.append(dict(kind="fillmod-abs", go=start, ml=start, path=path, want=want))
        i = rnd.randrange(len(st))
        bad = [mn + ":" + step_name(x) for x in st]
        bad[i] = mn + ":" + BAD
        qs.append(dict(kind="fillmod-bad", go=(mn, ()), ml=(mn, ()), path="/" + "/".join(bad), want="-"))
        frm = rnd.choice(pos)[0]
        k = 0
        while k < len(frm) and k < len(st) and frm[k] == st[k]:
            k += 1
        parts = [".."] * (len(frm) - k) + [step_name(x) for x in st[k:]]
        if parts:
            qs.append(dict(kind="fillmod-rel", go=(mn, frm), ml=(mn, frm), path="/".join(parts), want=want))
    return qs


def fill_node_queries(schema, spec, rnd):
    if spec["kind"] not in ("leaf", "mix", "cont"):
        return []
    big = with_filler(schema, spec)
    if spec["where"] in ("top", "cont"):
        m = [x for x in big if x["name"] == spec["module"]][0]
        base = () if spec["where"] == "top" else (("C", spec["cont"]),)
        sibs = m["body"] if spec["where"] == "top" else [n for n in m["body"] if n[0] in ("container", "list") and n[1] == spec["cont"]][0][-1]
    else:
        m = [x for x in big if x["name"] == fill_module_name(spec)][0]
        base = (("C", "box"),) if spec.get("cont") else ()
        sibs = [n for n in m["body"] if n[0] == "container" and n[1] == "box"][0][3] if spec.get("cont") else m["body"]
    named = [n for n in sibs if n[0] in ("leaf", "container") and n[1].startswith(FILL)]
    if not named:
        return []
    qs = []
    pfx, mn = m["prefix"], m["name"]
    pick = [named[0], named[-1]] + [rnd.choice(named) for _ in range(6)]
    for n in pick:
        st = base + (("C", n[1]),)
        kind = "Leaf" if n[0] == "leaf" else "Directory"
        want = "%s:%s:%s" % (show_pos(mn, st), sg.hx(n[1]), kind)
        path = "/" + "/".join(pfx + ":" + step_name(x) for x in st)
        o = rnd.choice(named)
        qs.append(dict(kind="fill-abs", go=(mn, ()), ml=(mn, ()), path=path, want=want))
        qs.append(dict(kind="fill-abs", go=(mn, base + (("C", o[1]),)), ml=(mn, ()), path=path, want=want))
        qs.append(dict(kind="fill-rel", go=(mn, base + (("C", o[1]),)), ml=(mn, ()), path="../" + n[1], want=want))
        qs.append(dict(kind="fill-bad", go=(mn, ()), ml=(mn, ()), path=path + "x-" + BAD, want="-"))
        if n[0] == "container":
            qs.append(dict(kind="fill-rel", go=(mn, st + (("C", "l"),)), ml=(mn, ()), path="../../" + o[1],
                           want="%s:%s:%s" % (show_pos(mn, base + (("C", o[1]),)), sg.hx(o[1]), "Leaf" if o[0] == "leaf" else "Directory")))
    return qs


def check_big(res, rnd, tier, stats, pool):
    """implementation only: the model has no memo tables and no notion of size, so what a module set's SIZE does to the
    lookups is outside it.  Module sets whose lookups were tied to the model above are given tens of thousands of extra
    nodes with fresh names beside the existing ones (or in a module of their own); every lookup must return what it
    returned without them (position recovered through Parent pointers and the identity of the roots collected once after
    Process), lookups of the extra nodes what they name by construction, and the harness' sweep over the trees
    (find17Sweep: absolute path of a node from the root entry, the node itself and a sibling subtree; '..' up to the
    root; '../name') must be clean."""
    specs = big_specs(rnd, tier, pool)
    cases = []
    for i, spec in specs:
        sc, qs, _, _ = pool[i]
        fq = filler_queries(sc, spec, rnd)
        cases.append((i, spec, fq, go_find_case(with_filler(sc, spec), "b%d" % (1 if tier != "quick" else 5), list(qs) + fq)))
    outs = lib.run_sharded([os.path.join(lib.HGO, "harness"), "run"], [c[3] for c in cases], shards=max(1, len(cases)))
    for (i, spec, fq, _), line in zip(cases, outs):
        sc, qs, base, _ = pool[i]
        rep = dict(kind="big", schema=sc, fill=spec, queries=[dict(x, go=list(x["go"]), ml=list(x["ml"])) for x in qs])
        if not line.startswith("{"):
            res.violation("find17 (big module set, %s) crashed on the implementation: %s" % (spec, line[:300]), rep)
            continue
        j = json.loads(line)
        if j["runs"][-1]["errors"] or any(l.startswith("err") for l in j["loads"]):
            res.violation("a module set that processes cleanly does not with %d extra nodes (%s): %s"
                          % (spec["count"], spec, (j["runs"][-1]["errors"] or j["loads"])[:2]), rep)
            continue
        stats["big_sets"] += 1
        stats["big_nodes"] += j.get("nodes", 0)
        stats["big_lookups"] += j.get("sweepcount", 0) + len(j["find"])
        got = [r.split("|", 1)[1] for r in j["find"]]
        bad = 0
        if len(got) != len(qs) + len(fq) and not j.get("sweepviol"):
            res.violation("find17 (big module set) answered %d of %d queries" % (len(got), len(qs) + len(fq)), rep)
        for x, w, g in zip(list(qs) + fq, list(base) + [x["want"] for x in fq], got):
            if g != w and bad < 2:
                bad += 1
                res.violation("with %d extra nodes (%s %s, kind %s) in the module set, Find(%r) from %s returned %s; the path names %s"
                              % (spec["count"], spec["where"], spec["module"] if spec["where"] in ("top", "cont") else "module",
                                 spec["kind"], x["path"], x["go"], g, w), dict(rep, query=dict(x, go=list(x["go"]), ml=list(x["ml"])), impl=g))
        for v in (j.get("sweepviol") or [])[:2]:
            res.violation("with %d extra nodes (%s, kind %s) in the module set: %s" % (spec["count"], spec["where"], spec["kind"], v),
                          dict(rep, sweepviol=j["sweepviol"]))


# ------------------------------------------------------------------ pinned revisions (implementation only)
REVS = ["2018-05-05", "2019-01-01", "2020-01-01"]


def lib_paths(i):
    """every node of the PROCESSED tree of revision i: shorthand choice members sit in implicit cases (also in the rpc
    input), the revision's own augments are grafted"""
    return [("top",), ("top", "shared"), ("top", "only-%d" % i), ("top", "c-%d" % i), ("top", "c-%d" % i, "x"),
            ("t-%d" % i,), ("common",),
            ("top", "ch"), ("top", "ch", "x"), ("top", "ch", "x", "x"),
            ("top", "ch", "sc-%d" % i), ("top", "ch", "sc-%d" % i, "sc-%d" % i), ("top", "ch", "sc-%d" % i, "sc-%d" % i, "y"),
            ("top", "ch", "cs"), ("top", "ch", "cs", "in-cs"),
            ("op",), ("op", "input"), ("op", "input", "ich"), ("op", "input", "ich", "ix-%d" % i),
            ("op", "input", "ich", "ix-%d" % i, "ix-%d" % i),
            ("top", "aug-%d" % i), ("top", "augc"), ("top", "augc", "al-%d" % i),
            ("top", "ch", "ag-%d" % i), ("top", "ch", "ag-%d" % i, "ag-%d" % i),
            ("top", "c-%d" % i, "late"), ("op", "input", "ai-%d" % i)]


def lib_text(i, history):
    revs = "".join("  revision %s;\n" % r for r in history)
    return ("module lib {\n  namespace \"urn:lib\";\n  prefix l;\n%s"
            "  container top {\n    leaf shared { type string; }\n    leaf only-%d { type string; }\n"
            "    container c-%d { leaf x { type string; } }\n"
            "    choice ch {\n      leaf x { type string; }\n      container sc-%d { leaf y { type string; } }\n"
            "      case cs { leaf in-cs { type string; } }\n    }\n  }\n"
            "  leaf t-%d { type string; }\n  leaf common { type string; }\n"
            "  rpc op { input { choice ich { leaf ix-%d { type string; } } } }\n"
            "  augment \"/l:top\" { leaf aug-%d { type string; } container augc { leaf al-%d { type string; } } }\n"
            "  augment \"/l:top/l:ch\" { leaf ag-%d { type string; } }\n"
            "  augment \"/l:top/l:c-%d\" { leaf late { type string; } }\n"
            "  augment \"/l:op/l:input\" { leaf ai-%d { type string; } }\n}\n"
            % (revs, i, i, i, i, i, i, i, i, i, i))


def user_text(k, imports):
    imp = "".join("  import lib { prefix %s; %s}\n" % (p, ("revision-date %s; " % REVS[pin]) if pin is not None else "")
                  for p, pin in imports)
    return ("module u%d {\n  namespace \"urn:u%d\";\n  prefix u%d;\n%s  leaf here { type string; }\n"
            "  container uc { leaf ul { type string; } }\n}\n" % (k, k, k, imp))


def revision_cases(rnd, tier):
    """(case line, expected results, description) for the family: lib in 2-3 revisions with partly different children,
    users importing it with and without revision-date (and under two prefixes at once), many load orders"""
    import itertools
    out = []
    for revset in ((0, 1), (1, 2), (0, 2), (0, 1, 2)):
        latest = max(revset)
        libs = []
        for i in revset:
            hist = [REVS[i]] + [REVS[j] for j in range(i) if rnd.random() < 0.5]
            if rnd.random() < 0.5:
                hist.reverse()                       # the newest revision statement need not come first
            libs.append(("lib@%s.yang" % REVS[i], lib_text(i, hist)))
        users = [[("l", i)] for i in revset] + [[("l", None)], [("q", None)], [("old", min(revset)), ("new", None)],
                                               [("a", revset[0]), ("b", revset[-1])]]
        utexts = [("u%d.yang" % k, user_text(k, imps)) for k, imps in enumerate(users)]
        union = sorted({p for i in revset for p in lib_paths(i)})
        qs, want = [], []

        def ask(key, st, pfx, rev):
            for p in union:
                qs.append((key, st, "/" + "/".join(pfx + ":" + x for x in p)))
                want.append(("lib@%s|%s" % (REVS[rev], sg.hx("/lib/" + "/".join(p)))) if p in lib_paths(rev) else "-")
        for k, imps in enumerate(users):
            for st in ((), ("here",), ("uc", "ul")):
                for pfx, pin in imps:
                    ask("u%d" % k, st, pfx, latest if pin is None else pin)
        for i in revset:
            ask("lib@" + REVS[i], ("top", "shared"), "l", i)
        ask("lib", (), "l", latest)
        perms = list(itertools.permutations(libs))
        orders = []
        for pl in perms:
            orders += [list(pl) + utexts, utexts + list(pl), [x for pair in itertools.zip_longest(utexts, pl) for x in pair if x]]
        if tier != "quick":
            for _ in range(40):
                o = libs + utexts
                rnd.shuffle(o)
                orders.append(o)
        for o in orders:
            toks = ["findrev", str(len(o))]
            for name, text in o:
                toks += [sg.hx(name), sg.hx(text)]
            toks.append(str(len(qs)))
            for key, st, path in qs:
                toks += [sg.hx(key), str(len(st))] + ["C" + x.encode().hex() for x in st] + [sg.hx(path)]
            out.append((" ".join(toks), want, dict(revisions=[REVS[i] for i in revset], order=[n for n, _ in o],
                                                   texts=dict(o), queries=[[k, list(st), p] for k, st, p in qs])))
    return out


def check_revisions(res, rnd, tier, stats):
    cases = revision_cases(rnd, tier)
    outs = lib.run_go([c for c, _, _ in cases])
    reported = 0
    for (line, want, desc), o in zip(cases, outs):
        stats["revision_sets"] += 1
        t = o.split(" ")
        if t[0] != "ok" or len(t) - 1 != len(want):
            if reported < 3:
                reported += 1
                res.violation("pinned-revision family: the module set was not processed: %s" % o[:300],
                              dict(kind="revisions", case=line, desc=desc, want=want))
            continue
        for (key, st, path), g, w in zip(desc["queries"], t[1:], want):
            stats["revision_lookups"] += 1
            if g != w and reported < 3:
                reported += 1
                show = lambda r: r if "|" not in r else r.split("|")[0] + ":" + bytes.fromhex(r.split("|")[1]).decode()
                res.violation("pinned revision: Find(%r) from /%s of %s (load order %s) returned %s, the import denotes %s"
                              % (path, "/".join(st), key, desc["order"], show(g), show(w)),
                              dict(kind="revisions", case=line, desc=desc, want=want))


def late_augment_schemas(rnd, n):
    """chains of augments over several rounds of {augment, FixChoice}: each link's target lies inside a shorthand member
    of a choice that the link before grafted (so it exists only after the next FixChoice) and grafts a choice with
    shorthand members itself"""
    out = []
    for _ in range(n):
        uid = [0]

        def nm(stem):
            uid[0] += 1
            return "%s%d" % (stem, uid[0])

        def choice():
            cont = nm("sc")
            members = [("container", cont, rnd.choice([None, None, False]), [_lf(nm("l"))])]
            for _ in range(rnd.randint(0, 2)):
                members.append(rnd.choice([_lf(nm("sl")), ("case", nm("cs"), [_lf(nm("cl"))]),
                                           ("list", nm("li"), None, None, None, None, [_lf(nm("k"))])]))
            rnd.shuffle(members)
            return ("choice", nm("ch"), None, None, None, members), cont
        ch, cont = choice()
        in_rpc = rnd.random() < 0.3
        base = _m("m0", "m0", "urn:m0", body=[("rpc", False, "op", [ch], None)] if in_rpc else [("container", "top", None, [ch, _lf("plain")])])
        path = (["op", "input"] if in_rpc else ["top"]) + [ch[1], cont, cont]
        mods = [base]
        for i in range(1, rnd.randint(2, 4)):
            ch, cont2 = choice()
            m = _m("m%d" % i, "m%d" % i, "urn:m%d" % i, imports=[("m%d" % j, "m%d" % j) for j in range(i)], body=[_lf(nm("start"))])
            body = [ch] + ([_lf(nm("pl"))] if rnd.random() < 0.5 else [])
            m["augments"].append(("/" + "/".join("m0:" + x for x in path), body))
            if rnd.random() < 0.5:        # a shorthand member grafted into the choice the link before grafted
                m["augments"].append(("/" + "/".join("m0:" + x for x in path[:-2]), [_lf(nm("into"))]))
            mods.append(m)
            path = path + [ch[1], cont2, cont2]
        if rnd.random() < 0.5:
            mods.reverse()
        out.append(mods)
    return out


def choice_in_choice_schemas(rnd, n):
    """a choice grafted DIRECTLY below a choice (RFC 7950: a choice is a shorthand case too; the grammar does not let a
    module write it in place, so it gets there by an augment whose target is a choice and whose body is a choice, or a
    uses of a grouping with a choice at its top level): host choices at the module top, in containers, lists, rpc input,
    notifications and inside an explicit case of another choice; the grafted choice alone or beside leaves, cases and a
    second choice; its members shorthand leaves/containers/lists and explicit cases; grafted by another module, by the
    module itself or by its submodule; optionally a further link that targets the grafted choice through its implicit
    case and grafts a choice (or a leaf) again"""
    out = []
    for _ in range(n):
        uid = [0]

        def nm(stem):
            uid[0] += 1
            return "%s%d" % (stem, uid[0])

        def members(lo=1):
            ms = []
            for _ in range(rnd.randint(lo, 3)):
                ms.append(rnd.choice([_lf(nm("sl")), _lf(nm("sl")), ("case", nm("cs"), [_lf(nm("cl")), _lf(nm("cl"))]),
                                      ("container", nm("sc"), None, [_lf(nm("l"))]),
                                      ("list", nm("li"), None, None, None, None, [_lf(nm("k"))])]))
            return ms

        def choice(lo=1):
            return ("choice", nm("ch"), None, None, None, members(lo))
        # hosts: (node to put into t, path of the host choice)
        hosts, body = [], []
        kinds = ["top", "cont", "list", "rpc", "case", "notif", "shorthand"]
        rnd.shuffle(kinds)
        for hk in kinds[:rnd.randint(2, 4)]:
            h = choice(lo=0)
            if hk == "top":
                body.append(h)
                hosts.append([h[1]])
            elif hk == "cont":
                c = nm("c")
                body.append(("container", c, None, [h, _lf(nm("pl"))]))
                hosts.append([c, h[1]])
            elif hk == "list":
                c = nm("li")
                body.append(("list", c, None, None, None, None, [_lf(nm("k")), h]))
                hosts.append([c, h[1]])
            elif hk == "rpc":
                r = nm("op")
                io = rnd.choice(["input", "output"])
                body.append(("rpc", False, r, [h] if io == "input" else None, [h] if io == "output" else None))
                hosts.append([r, io, h[1]])
            elif hk == "case":          # the host is a choice nested in an explicit case of another choice
                oc, cs = nm("och"), nm("ocs")
                body.append(("choice", oc, None, None, None, [("case", cs, [h, _lf(nm("cl"))]), _lf(nm("sl"))]))
                hosts.append([oc, cs, h[1]])
            elif hk == "notif":
                nt = nm("nt")
                body.append(("notification", nt, [h]))
                hosts.append([nt, h[1]])
            else:                       # ... in a shorthand container of another choice (path crosses an implicit case)
                oc, sc = nm("och"), nm("sc")
                body.append(("choice", oc, None, None, None, [("container", sc, None, [h])]))
                hosts.append([oc, sc, sc, h[1]])
        body.append(_lf("tstart"))
        t = _m("t", "t", "urn:t", body=body)
        sub = None
        if rnd.random() < 0.3:
            sub = _m("tsub", "t", "", belongs="t", body=[_lf(nm("subl"))])
            t["includes"] = ["tsub"]
        gm = _m("gm", "gm", "urn:gm", body=[])
        a = _m("a", "a", "urn:a", imports=[("t", "t"), ("gm", "gm")], body=[_lf("start")])
        c = _m("c", "c", "urn:c", imports=[("t", "t"), ("a", "a")], body=[_lf("cstart")])
        gid = [20]
        chained = rnd.random() < 0.5

        def grouping(owner, gbody):
            gid[0] += 1
            g = nm("g")
            owner["body"].append(("grouping", gid[0], g, gbody))
            return g
        for hp in hosts:
            who = rnd.choice([a, a, a, t] + ([sub] if sub else []))
            pfx = lambda m, tgt: m["prefix"] if (m is tgt or (m["belongs"] and tgt is t)) else tgt["name"]
            path = "/" + "/".join(pfx(who, t) + ":" + x for x in hp)
            inner = choice()
            how = rnd.random()
            extra = rnd.choice([[], [], [_lf(nm("al"))], [choice()]])
            if how < 0.4:
                if rnd.random() < 0.3:
                    extra = extra + [("case", nm("acs"), [_lf(nm("cl"))])]
                ab = [inner] + extra
            elif how < 0.8:
                owner = who if rnd.random() < 0.5 else gm
                if who is t or who is sub:
                    owner = who                      # t does not import gm
                g = grouping(owner, [inner] + extra)
                ab = [("uses", g if owner is who else "gm:" + g)]
            else:                                    # a grouping that uses a grouping whose top level is a choice
                owner = who
                g0 = grouping(owner, [inner])
                g = grouping(owner, [("uses", g0)] + extra)
                ab = [("uses", g)]
            rnd.shuffle(ab)
            who["augments"].append((path, ab))
            # the processed position of the grafted choice: host / implicit case inner / inner
            wp = who if who["belongs"] is None else t
            if chained and rnd.random() < 0.6:
                # a further link: another module (or the same) reaches the grafted choice through its implicit case
                m2 = rnd.choice([c, c, wp]) if wp is not t else rnd.choice([c, a])
                st = [pfx(m2, t) + ":" + x for x in hp] + [pfx(m2, wp) + ":" + inner[1]] * 2
                tail = rnd.random()
                if tail < 0.5:
                    m2["augments"].append(("/" + "/".join(st), [choice()] + rnd.choice([[], [_lf(nm("al"))]])))
                else:
                    sh = [x for x in inner[5] if x[0] != "case"]
                    if sh:
                        k = rnd.choice(sh)[1]
                        m2["augments"].append(("/" + "/".join(st + [pfx(m2, wp) + ":" + k]), [_lf(nm("into"))]))
                    else:
                        m2["augments"].append(("/" + "/".join(st), [_lf(nm("al"))]))
        mods = [gm, t] + ([sub] if sub else []) + [a, c]
        if rnd.random() < 0.5:
            mods.reverse()
        out.append(mods)
    return out


def gen_schemas(rnd, n, constructed=None):
    out = late_augment_schemas(rnd, max(10, n // 10))
    cc = choice_in_choice_schemas(rnd, max(12, n // 10))
    if constructed is not None:
        constructed.update(id(x) for x in cc)
    out += cc
    for i in range(n):
        r = rnd.random()
        if r < 0.5:
            out.append(sg.random_schema(rnd, p_dev=0.15))
        elif r < 0.8:
            out.append(sg.random_schema(rnd, p_dev=0.0, p_sub=0.6, p_aug=1.0))
        else:
            out.append(sg.random_schema(rnd))
    return out


def run(res, tier, seed, proof):
    rnd = random.Random(seed)
    n = 140 if tier == "quick" else 2500
    budget = 330 if tier == "quick" else 600
    stats = dict(status={}, impl_lookups=0, features={}, queries={}, tied=0, revision_sets=0, revision_lookups=0, late_sets=0, path_sets=0, getmodule_sets=0,
                 constructed=set(), constructed_rejected_by_both=0,
                 pool=[], big_sets=0, big_nodes=0, big_lookups=0)
    schemas = feature_schemas() + gen_schemas(rnd, n, stats["constructed"])
    for i in range(0, len(schemas), 400):
        check_batch(res, schemas[i:i + 400], rnd, budget, stats)
    check_revisions(res, rnd, tier, stats)
    pool = stats.pop("pool")
    check_big(res, rnd, tier, stats, pool)
    stats.pop("constructed")
    clean = stats["status"].get("ok", 0)
    nq = sum(stats["queries"].values())
    cov = dict(
        evaluations=stats["impl_lookups"] + nq + stats["revision_lookups"] + stats["big_lookups"], distinct_nontrivial=nq,
        rule="module sets from schema_gen.random_schema (three knob settings) plus two hand-written feature sets; "
             "for every set that processes cleanly: the harness' pointer-identity lookups (option f) and, tied to the "
             "model, every node's absolute path from every (sub)module that names its tree, bad-step variants, relative "
             "paths between random node pairs, on-demand input/output; non-trivial = a query answered by both sides",
        exhaustive=False, module_sets=len(schemas), clean=clean, clean_ratio=round(clean / max(1, len(schemas)), 3),
        distribution=dict(status=stats["status"], features=stats["features"], queries=stats["queries"],
                          impl_pointer_lookups=stats["impl_lookups"], tied_sets=stats["tied"],
                          late_load_sets=stats["late_sets"], search_path_sets=stats["path_sets"], getmodule_sets=stats["getmodule_sets"], big_sets=stats["big_sets"], big_set_nodes=stats["big_nodes"], big_set_lookups=stats["big_lookups"],
                          pinned_revision_sets=stats["revision_sets"], pinned_revision_lookups=stats["revision_lookups"]),
        samples=[sg.render_module(m)[:300] for m in schemas[2][:2]],
    )
    if clean * 10 < len(schemas) * 6:
        res.violation("generator drifted: only %d of %d module sets process cleanly" % (clean, len(schemas)),
                      dict(kind="generator", status=stats["status"]), no_input=True)
    assumptions = ["the YANG text given to the implementation and the token encoding given to the model render the same "
                   "abstract schema (schema_gen.render_module / enc_module)",
                   "the context module of a lookup is the module whose text defines the start node (reported by the "
                   "implementation as RootNode(e.Node)); the model takes it as a parameter",
                   "size of a module set (tens of thousands of nodes, more than any bounded memo would hold): outside the "
                   "model, which has no memo tables -- implementation-side oracle: the lookups tied to the model on the small "
                   "set must return the same positions (pointer identity up to the roots collected once after Process) when "
                   "the set is padded with fresh-named nodes, and find17Sweep checks the property's text on the padded trees",
                   "pinned-revision family: implementation only, expectation by construction (the core model has no revisions)",
                   "lookups starting at a submodule's own root entry are compared for absolute paths only (prefixed: start "
                   "passed to the model as the owner's root; unprefixed: start passed under the submodule's name)"]
    return cov, assumptions


def replay(rep, res):
    if rep.get("kind") == "revisions":
        o = lib.run_go([rep["case"]])[0].split(" ")
        for n in rep["desc"]["order"]:
            print("//", n)
            print(rep["desc"]["texts"][n])
        rc = 0 if o[0] == "ok" and o[1:] == rep["want"] else 1
        for q, g, w in zip(rep["desc"]["queries"], o[1:], rep["want"]):
            if g != w:
                print("Find(%s) from %s /%s: got %s want %s" % (q[2], q[0], "/".join(q[1]), g, w))
        print("status:", o[0])
        return rc
    sc = rep["schema"]
    for m in sc:
        print(sg.render_module(m))
    line = lib.run_go([sg.go_case(sc, opts="f")])[0]
    st, canon, j = sg.canon_go(line)
    print("process:", st)
    rc = 0
    if rep.get("kind") == "rejected":
        m = lib.run_ml([ml_find_case(sc, "-", [], [])])[0]
        print("model:", m[:60])
        if st != "ok":
            print("errors:", (j or {}).get("runs", [{}])[-1].get("errors") if isinstance(j, dict) else None)
        return 1 if st != "ok" and m.startswith("ok wf=") else 0
    if st == "ok":
        fv = j["runs"][-1]["findviol"]
        print("findviol:", fv)
        rc = 1 if fv else 0
    if rep.get("kind") == "big":
        qs = [dict(x, go=(x["go"][0], tuple(tuple(s) for s in x["go"][1])), ml=(x["ml"][0], tuple(tuple(s) for s in x["ml"][1])))
              for x in rep["queries"]]
        print("padding:", rep["fill"])
        g0 = lib.run_go([go_find_case(sc, "-", qs), go_find_case(with_filler(sc, rep["fill"]), "b1", qs)])
        if not all(x.startswith("{") for x in g0):
            print("impl:", [x[:300] for x in g0])
            return 1
        a, b = (json.loads(x) for x in g0)
        for x, r1, r2 in zip(qs, a["find"], b["find"]):
            if r1 != r2:
                print("query %s from %s: small set=%s padded set=%s" % (x["path"], x["go"], r1, r2))
                rc = 1
        for v in b.get("sweepviol") or []:
            print("sweep:", v)
            rc = 1
        if b["runs"][-1]["errors"]:
            print("errors:", b["runs"][-1]["errors"][:3])
            rc = 1
        return rc
    if rep.get("queries"):
        qs = [dict(x, go=(x["go"][0], tuple(tuple(s) for s in x["go"][1])), ml=(x["ml"][0], tuple(tuple(s) for s in x["ml"][1])))
              for x in rep["queries"]]
        if rep.get("on_path"):
            g0 = lib.run_go([go_find_case(sc, "-", qs), go_find_case(sc, "-", qs, set(rep["on_path"]))])
            a, b = (json.loads(x)["find"] if x.startswith("{") else None for x in g0)
            for x, r1, r2 in zip(qs, a or [], b or []):
                if r1 != r2:
                    print("on the search path %s: query %s from %s: parsed=%s path=%s" % (rep["on_path"], x["path"], x["go"], r1, r2))
                    rc = 1
            if a is None or b is None or len(a) != len(b):
                rc = 1
        if rep.get("via_get"):
            g0 = lib.run_go([go_find_case(sc, "-", qs), go_find_case(sc, "-", qs, via_get=rep["via_get"])])
            a, b = (json.loads(x)["find"] if x.startswith("{") else None for x in g0)
            for x, r1, r2 in zip(qs, a or [], b or []):
                if r1 != r2:
                    print("GetModule(%s): query %s from %s: ToEntry tree=%s GetModule tree=%s" % (rep["via_get"], x["path"], x["go"], r1, r2))
                    rc = 1
            if a is None or b is None or len(a) != len(b):
                rc = 1
        if rep.get("late"):
            g0 = lib.run_go([go_find_case(sc, "-", qs), go_find_case(sc, "l", qs)])
            a, b = (json.loads(x)["find"] if x.startswith("{") else None for x in g0)
            for x, r1, r2 in zip(qs, a or [], b or []):
                if r1 != r2:
                    print("late load: query %s from %s: before=%s after=%s" % (x["path"], x["go"], r1, r2))
                    rc = 1
            if a is None or b is None:
                rc = 1
        g = lib.run_go([go_find_case(sc, "-", qs)])[0]
        if g.startswith("{"):
            rs = json.loads(g)["find"]
            m = lib.run_ml([ml_find_case(sc, "-", qs, [r.split("|", 1)[0] for r in rs])])[0]
            mres = m.partition(" | ")[0].split(" ")[2:]
            for x, r, mm in zip(qs, rs, mres):
                gr = r.split("|", 1)[1]
                if gr != x["want"] or gr != mm:
                    print("query %s from %s: impl=%s model=%s want=%s" % (x["path"], x["go"], gr, mm, x["want"]))
                    rc = 1
            if sg.canon_go(g)[1] != m.partition(" | ")[2]:
                print("forests differ after the lookups")
                rc = 1
        else:
            print("impl:", g[:500])
            rc = 1
    return rc
