"""C19 — independent module sets and concurrent readers do not interfere.

Proof step (framework): generic lockset theorem + instance obligations over the regenerated coq/Gen/Locks.v.
This module: the VALIDATION of the table against the running code — a stress harness built with the Go race
detector (testing, labelled so in the evidence), and the evidence about the table."""
import os
import re
import shutil
import subprocess
import tempfile
from concurrent.futures import ThreadPoolExecutor

import lib

NEED_ML = False

RACE_BIN = os.path.join(lib.WORK, "harness_race")
GORACE = "halt_on_error=1 exitcode=66"

# (processes per mode, iterations per process)
SIZES = {"quick": dict(pipelines=(4, 120), readers=(4, 90), errsets=(2, 60), pathsets=(2, 80)),
         "thorough": dict(pipelines=(6, 1500), readers=(6, 1100), errsets=(4, 700), pathsets=(3, 800))}

CUTS = {"ToEntry": ["Modules.startEntry", "Modules.setEntryCache"], "Modules.FindModule": ["Modules.Read"]}
READ_ROOTS = ["ToEntry", "Entry.Find", "Entry.Namespace", "Entry.InstantiatingModule", "Modules.FindModuleByNamespace",
              "Entry.ReadOnly", "Entry.DefaultValues", "Entry.SingleDefaultValue", "Entry.GetErrors", "Entry.Print"]
GUARDED = ["Modules.byNS", "Modules.entryCache", "typeDictionary.dict"]


# ------------------------------------------------------------------------------ build

def build_race():
    """-> (binary, race_enabled, note)"""
    env = dict(lib.GOENV, CGO_ENABLED="1")
    with lib.BuildLock():
        rc, out = lib.sh(["go", "build", "-race", "-tags", "verif", "-o", RACE_BIN, "."], cwd=lib.HGO, env=env, timeout=900)
        if rc == 0:
            return RACE_BIN, True, "go build -race ok"
        note = "go build -race failed (%s); fell back to a plain build: result comparison only" % out.strip()[-300:]
        rc, out2 = lib.sh(["go", "build", "-tags", "verif", "-o", RACE_BIN, "."], cwd=lib.HGO, env=lib.GOENV, timeout=900)
        if rc == 0:
            return RACE_BIN, False, note
    return None, False, "harness build failed: " + out2[-500:]


def run_harness(binary, mode, iters, seed, timeout):
    # a private TMPDIR: the race detector's hard exit (exitcode=66) skips the harness's own clean-up
    tmp = tempfile.mkdtemp(prefix="c19-", dir=lib.WORK)
    env = dict(os.environ, GORACE=GORACE, TMPDIR=tmp)
    cmd = [binary, "race", mode, str(iters), str(seed), lib.REPO]
    try:
        p = subprocess.run(cmd, stdout=subprocess.PIPE, stderr=subprocess.STDOUT, text=True, env=env, timeout=timeout)
        return p.returncode, p.stdout
    except subprocess.TimeoutExpired as e:
        out = e.stdout if isinstance(e.stdout, str) else (e.stdout or b"").decode("utf-8", "replace")
        return 124, out + "\nTIMEOUT after %ds (deadlock?)" % timeout
    finally:
        shutil.rmtree(tmp, ignore_errors=True)


def classify(rc, out):
    if "WARNING: DATA RACE" in out or rc == 66:
        return "race"
    if rc == 124:
        return "timeout"
    if rc == 3 or "DIFF " in out:
        return "diff"
    if rc != 0:
        return "crash"
    return None


# ------------------------------------------------------------------------------ the table (for the evidence)

F_RE = re.compile(r'\{\| f_name := "([^"]+)"; f_init_only := (true|false); f_body := \[(.*?)\] \|\}', re.S)
I_RE = re.compile(r'(IAcc|ICall) "([^"]+)"(?: (R|W))? \[(.*?)\]')
H_RE = re.compile(r'\("([^"]+)", (MX|MR)\)')
X_RE = re.compile(r'\("([^"]+)", "([^"]+)", (R|W)\)')
A_RE = re.compile(r'\("([^"]+)", "([^"]+)", \[(.*?)\], (Locked|OutOfClaim)\)')


def parse_table():
    src = open(os.path.join(lib.COQ, "Gen", "Locks.v")).read()
    tb = {}
    for name, init, body in F_RE.findall(src):
        items = []
        for kind, nm, rw, held in I_RE.findall(body):
            items.append((kind, nm, rw, tuple(H_RE.findall(held))))
        tb[name] = dict(init_only=(init == "true"), items=items)
    mus = re.search(r"Definition mutexes .*?:= \[(.*?)\]\.", src, re.S)
    mutexes = re.findall(r'\("([^"]+)", (true|false)\)', mus.group(1)) if mus else []
    return tb, mutexes


def parse_allow():
    src = lib.strip_comments(open(os.path.join(lib.COQ, "Spec", "C19.v")).read())
    m = re.search(r"Definition write_allow .*?:=(.*?)\]\.", src, re.S)
    return [(fn, loc, tuple(H_RE.findall(h)), why) for fn, loc, h, why in A_RE.findall(m.group(1))] if m else []


def parse_exempt():
    src = lib.strip_comments(open(os.path.join(lib.COQ, "Spec", "C19.v")).read())
    m = re.search(r"Definition guarded_exempt .*?:=(.*?)\]\.", src, re.S)
    return set(X_RE.findall(m.group(1))) if m else set()


def parse_handout():
    src = lib.strip_comments(open(os.path.join(lib.COQ, "Spec", "C19.v")).read())
    m = re.search(r"Definition handout_allow .*?:=(.*?)\]\.", src, re.S)
    return set(re.findall(r'\("([^"]+)", "([^"]+)"\)', m.group(1))) if m else set()


def footprint(tb, roots):
    """same walk as Spec/C19.v [expand]: (fn, loc, rw, held incl. inherited); None if a callee is unknown"""
    work = [(r, ()) for r in roots]
    seen, out = set(), []
    while work:
        fn, inh = work.pop(0)
        if (fn, inh) in seen:
            continue
        seen.add((fn, inh))
        f = tb.get(fn)
        if f is None:
            return None, seen
        body = f["items"]
        if fn in CUTS:
            cut = []
            for it in body:
                if it[0] == "ICall" and it[1] in CUTS[fn]:
                    break
                cut.append(it)
            body = cut
        calls = []
        for kind, nm, rw, held in body:
            if kind == "IAcc":
                out.append((fn, nm, rw, inh + held))
            else:
                calls.append((nm, inh + held))
        work = calls + work
    return out, seen


def protects(h1, h2):
    return any(m1 == m2 and (d1 == "MX" or d2 == "MX") for m1, d1 in h1 for m2, d2 in h2)


def table_evidence():
    tb, mutexes = parse_table()
    allow = parse_allow()
    fp, seen = footprint(tb, READ_ROOTS)
    findings = []
    if fp is None:
        findings.append("a function called on a read path is missing from the table")
        fp = []
    for r in READ_ROOTS + list(CUTS):
        if r not in tb:
            findings.append("function %s not found in pkg/yang (renamed or removed?)" % r)
    for fn, stops in CUTS.items():
        if fn in tb and not any(it[0] == "ICall" and it[1] in stops for it in tb[fn]["items"]):
            findings.append("%s no longer calls any of %s: its in-claim prefix cannot be delimited" % (fn, stops))
    writes = sorted({(fn, loc, held) for fn, loc, rw, held in fp if rw == "W"})
    allowed = {(fn, loc, held) for fn, loc, held, _ in allow}
    for w in writes:
        if w not in allowed and w[1].startswith("escape:"):
            findings.append("read accessor %s returns the slice/map stored in %s itself, not a copy: a caller that modifies its "
                            "own result modifies the shared processed set" % (w[0], w[1][7:]))
        elif w not in allowed:
            findings.append("write site on a read path not in the allow-list: %s writes %s holding %s" % (w[0], w[1], list(w[2]) or "nothing"))
    for a in sorted(allowed - set(writes)):
        findings.append("allow-list entry not found in the table any more: %s / %s holding %s" % (a[0], a[1], list(a[2]) or "nothing"))
    out_of_claim = {(fn, loc, held) for fn, loc, held, why in allow if why == "OutOfClaim"}
    racc = [(fn, loc, rw, held) for fn, loc, rw, held in fp if not (rw == "W" and (fn, loc, held) in out_of_claim)]
    for a in racc:
        if a[2] != "W":
            continue
        for b in racc:
            if a[1] == b[1] and not protects(a[3], b[3]):
                findings.append("readers: %s writes %s holding %s while %s accesses it holding %s" %
                                (a[0], a[1], list(a[3]) or "nothing", b[0], list(b[3]) or "nothing"))
                break
    pkgw = [(fn, nm) for fn, f in tb.items() if not f["init_only"] for k, nm, rw, h in f["items"]
            if k == "IAcc" and rw == "W" and nm.startswith("pkg.")]
    for fn, nm in sorted(set(pkgw)):
        if nm.endswith("[]"):
            findings.append("%s writes, through a local pointer that may have been taken from it, an object of the package-level "
                            "variable %s (e.g. y := table[k].F without a copy, then y.G = ..): the process-wide object is changed "
                            "for every module set" % (fn, nm[4:-2]))
            continue
        findings.append("package-level variable %s written outside init, in %s (a table shared by all module sets of the process "
                        "is written during processing; for a variable of an imported type such as sync.Map a method call that "
                        "is not known to be read-only counts as a write, race free or not)" % (nm[4:], fn))
    hand = {(fn, nm) for fn, f in tb.items() for k, nm, rw, h in f["items"] if k == "IAcc" and nm.startswith("handout:")}
    for fn, nm in sorted({(fn, nm) for fn, f in tb.items() for k, nm, rw, h in f["items"] if k == "IAcc" and nm.startswith("adopt:")}):
        findings.append("%s stores a slice/map parameter into %s without copying it: the object shares its backing store with the "
                        "caller and with every other module set that was given the same argument" % (fn, nm[6:]))
    hallow = parse_handout()
    for fn, nm in sorted(hand - hallow):
        findings.append("%s returns a pointer to the package-level object %s: the process-wide object ends up in the data of a "
                        "module set, a write through it is seen by every other set of the process" % (fn, nm[12:]))
    for fn, nm in sorted(hallow - hand):
        findings.append("hand-out allow-list entry not found in the table any more: %s / %s" % (fn, nm))
    exempt = parse_exempt()
    for g in GUARDED:
        rows = [(fn, rw, h) for fn, f in tb.items() for k, nm, rw, h in f["items"] if k == "IAcc" and nm == g
                and not (not h and (fn, g, rw) in exempt)]
        for fn, rw, h in rows:
            for fn2, rw2, h2 in rows:
                if (rw == "W" or rw2 == "W") and not protects(h, h2):
                    findings.append("guarded map %s: %s (%s, holding %s) vs %s (%s, holding %s)" %
                                    (g, fn, rw, list(h) or "nothing", fn2, rw2, list(h2) or "nothing"))
    rows = sum(len(f["items"]) for f in tb.values())
    ev = dict(
        table_functions=len(tb), table_rows=rows,
        table_access_rows=sum(1 for f in tb.values() for it in f["items"] if it[0] == "IAcc"),
        mutexes_found=["%s (%s)" % (m, "RWMutex" if rw == "true" else "Mutex") for m, rw in mutexes],
        init_only_functions=sorted(fn for fn, f in tb.items() if f["init_only"]),
        read_api_roots=READ_ROOTS,
        read_api_functions_reached=sorted({fn for fn, _ in seen if not fn.startswith("iface:")}),
        read_api_functions_reached_count=len({fn for fn, _ in seen}),
        path_cuts=["%s: only the part before its first call of %s" % (k, " / ".join(v)) for k, v in CUTS.items()],
        write_sites_on_read_paths=["%s writes %s holding %s" % (fn, loc, list(h) or "nothing") for fn, loc, h in writes],
        allow_list=["%s / %s holding %s : %s" % (fn, loc, list(h) or "nothing", why) for fn, loc, h, why in allow],
        package_objects_handed_out=["%s returns %s (allowed: identity sentinel)" % x for x in sorted(hand)],
        guarded_maps=GUARDED,
        guarded_exempt=["%s reads/writes %s (%s) without a mutex: private object, see Spec/C19.v" % (fn, loc, rw)
                        for fn, loc, rw in sorted(parse_exempt())],
        table_findings=sorted(set(findings))[:20],
    )
    return ev, sorted(set(findings))


# ------------------------------------------------------------------------------ run

def run(res, tier, seed, proof):
    ev, findings = table_evidence()
    binary, race_on, note = build_race()
    cov = dict(evaluations=0, distinct_nontrivial=0, samples=[], race_detector=race_on, race_build_note=note)
    cov.update(ev)
    assumptions = [
        "TESTING, not proof: the syntactic access table covers the dynamic footprint of the functions (validated by the "
        "-race stress harness on generated and testdata module sets; bounded by the race detector's and the scheduler's reach)",
        "the Go memory model, the race detector's completeness and the goroutine scheduler are outside the theorem",
        "one Modules / typeDictionary / identityDictionary object per module set (mutex and location names are Type.field)",
        "package init completes before any API call (Go guarantees it): writes under init are not concurrent with anything",
        "pkg/indent writers and the standard library are not analysed by the translator",
        "in claim: cache-hit ToEntry, Find on existing nodes with resolvable prefixes; out of claim (allow-list): lazy rpc "
        "input/output creation and addError on an unknown prefix inside Entry.Find",
    ]
    if binary is None:
        res.violation("race harness could not be built: " + note, dict(kind="build", log=note), no_input=True)
        cov["rule"] = "harness build failed"
        return cov, assumptions
    # is the detector really on in this binary?
    rc, out = run_harness(binary, "selftest", 0, 0, 120)
    detector_fires = (rc == 66 or "WARNING: DATA RACE" in out)
    cov["race_detector_selftest"] = "fired" if detector_fires else "did NOT fire (rc=%d)" % rc
    if race_on and not detector_fires:
        res.violation("the race detector did not report the deliberate race of `harness race selftest`",
                      dict(kind="selftest", output=out[-1500:]), no_input=True)
    sizes = SIZES[tier]
    if proof["failed"]:
        sizes = SIZES["thorough"]  # the table no longer checks: look harder for a failing run
    jobs = []
    for mode in ("pipelines", "readers", "errsets", "pathsets"):
        nproc, iters = sizes[mode]
        for i in range(nproc):
            jobs.append((mode, iters, seed * 1000 + i))
    tmo = 240 if sizes is SIZES["quick"] else 2400
    with ThreadPoolExecutor(max_workers=min(len(jobs), max(2, lib.NCPU // 2))) as ex:
        outs = list(ex.map(lambda j: run_harness(binary, j[0], j[1], j[2], tmo), jobs))
    runs = {"pipelines": 0, "readers": 0, "errsets": 0, "pathsets": 0}
    ops = {}
    bad = 0
    for (mode, iters, sd), (rc, out) in zip(jobs, outs):
        kind = classify(rc, out)
        m = re.search(r"goroutine_runs=(\d+)", out)
        if m:
            runs[mode] += int(m.group(1))
        for k, v in re.findall(r"(\w+)=(\d+)", (re.search(r"^OPS (.*)$", out, re.M) or [None, ""])[1]):
            ops[k] = ops.get(k, 0) + int(v)
        if kind:
            bad += 1
            if bad <= 3:
                lines = [l[:500] for l in out.splitlines() if l.startswith("DIFF ") or "DATA RACE" in l or l.startswith("  ") and ".go:" in l]
                what = {"race": "DATA RACE reported by the Go race detector",
                        "diff": "a concurrent caller obtained a result that differs from the sequential one",
                        "timeout": "the stress run did not finish (deadlock?)",
                        "crash": "the stress run crashed (rc=%d)" % rc}[kind]
                res.violation("%s: harness race %s %d %d  -- %s" % (what, mode, iters, sd, " | ".join(l.strip() for l in lines[:6])[:600]),
                              dict(kind=kind, mode=mode, iterations=iters, seed=sd, race_build=race_on, first_lines=lines[:4],
                                   cmd="GORACE='%s' %s race %s %d %d %s" % (GORACE, binary, mode, iters, sd, lib.REPO),
                                   output_tail=out[-4000:]))
    if proof["failed"] and findings:
        res.violation("the regenerated access table breaks the lockset obligations: " + "; ".join(findings[:4]),
                      dict(kind="table", findings=findings[:20], failed=proof["failed"]), no_input=True)
    cov.update(
        evaluations=sum(runs.values()),
        distinct_nontrivial=sum(runs.values()),
        goroutine_runs=runs, reader_operations=ops, failing_processes=bad,
        rule="evaluations = goroutine-runs of the stress harness (%s): 8 goroutines per iteration; pipelines = each goroutine loads and "
             "Processes a private module set (6 generated sets with typedefs, identities, groupings, augments, rpc, submodule; "
             "6 groups of /repo testdata) and its canonical dump must equal the sequential dump; readers = on one freshly processed "
             "set all goroutines start with first-time namespace->module lookups, then random read-API calls (ToEntry cache hit, Find "
             "absolute/prefixed/relative of existing nodes, Namespace, InstantiatingModule, FindModuleByNamespace, ReadOnly, "
             "DefaultValues, GetErrors, Print, enum Names/Values/NameMap/ValueMap), every answer compared with the answer of a "
             "separately processed twin set queried sequentially; every slice/map an accessor returns is overwritten and sorted by "
             "the caller (it is the caller's own), the early operations are simultaneous first-time prints of whole modules; errsets = 13 independent sets that "
             "contain the same error-producing constructs (malformed posix-patterns, bad range, unknown type, bad typedef) at "
             "file names and positions of their own, 3 sets whose load is rejected in the middle of a statement and 3 sets with a "
             "statement lacking a required substatement, at nesting depths 0..2: all at "
             "their own places, are processed one after the other in random orders and 8 at a time in "
             "parallel, and each set's full error list (positions included) must equal what a FRESH PROCESS handling only that "
             "set prints (child process `harness race errdump k 0`): results may not depend on what was processed before or "
             "alongside.; pathsets = 4 sets read from files in directories of their own, each "
             "with a same-named local import, all configured by AddPath from ONE shared search-path list (append-built, spare "
             "capacity): the AddPath/Read/Process steps of 2-3 pipelines are interleaved step by step in random schedules and 8 "
             "pipelines run in parallel, every dump compared with a fresh process (`harness race pathdump`).  All of them are non-trivial "
             "(every run shares the package-level tables or the processed set with 7 others)."
             % ("built with -race, GORACE=" + GORACE if race_on else "race detector UNAVAILABLE: result comparison only"),
        samples=["harness race %s %d %d" % j for j in jobs[:2] + jobs[-2:]],
        sample_observations=[o[1].strip().splitlines()[-1] if o[1].strip() else "" for o in outs[:1] + outs[-1:]],
    )
    return cov, assumptions


def replay(rep, res):
    if rep.get("kind") in ("table", "proof", "build", "selftest"):
        ev, findings = table_evidence()
        print("table findings:", *(findings or ["none"]), sep="\n  ")
        with lib.BuildLock():
            proof = lib.proof_step("C19")
        print("proof step:", "failed: %s" % proof["failed"] if proof["failed"] else "ok (%d/%d)" % (proof["discharged"], proof["obligations"]))
        return 1 if (findings or proof["failed"]) else 0
    binary, race_on, note = build_race()
    if binary is None:
        print(note)
        return 1
    rc, out = run_harness(binary, rep["mode"], int(rep["iterations"]), int(rep["seed"]), 2400)
    print(out[-6000:])
    kind = classify(rc, out)
    print("replay: mode=%s iterations=%s seed=%s race_build=%s -> %s" % (rep["mode"], rep["iterations"], rep["seed"], race_on, kind or "ok"))
    return 1 if kind else 0
