"""C04 -- a clean Process yields proper trees and really means there were no errors.

Module sets are composed from features that exercise every way a tree is put together, each at nesting depth >= 3:
uses in uses, uses in augment, augment into a node that came from a uses, include of a submodule that carries augments
(into its own and into its owner's nodes), shorthand choice members at every level (container, list, case, grouping,
augment, rpc/action input and output), deviations (attribute changes and not-supported under a list), augments chained on
augments, lazily created rpc input/output; plus "late" conflicts that only show after the first error sweep: two augments
adding one name (same / different modules), augment against a name a uses brought, augment into a leaf or into nothing,
deviation errors (no target, min/max-elements on a non-list, add default twice, delete mismatch, not-supported twice,
unknown replacement type, max-elements 0).  The general random schemas of schema_gen are mixed in.

  (a) tie     extracted model `resolve` (coq/Model/Schema.v) == implementation `process`: status and canonical forest
  (b) proper  every clean implementation result: the pointer-level walker of harness/go/resolve.go (`treeviol`: key = name,
              parent pointers incl. rpc input/output, one path per node object, kind / child map / list attributes / type
              coherence, every child of a choice a case, no augment left, no recorded error) reports nothing, and no node
              of the dump has nerr > 0 or naugments > 0
  (c) clean   model says error <=> implementation says error (a lost error shows up as ok-vs-err); part of (a), counted
              separately
  (d) side    the computable side condition of theorem C04_T1_choice_clause_side_condition (`final_applied = 0`: the
              reporting pass applies no augment; a theorem, C04_T1_reporting_pass_idle, for distinct module names and
              orders that visit every module; extracted from coq/Spec/C04.v, command c04side) holds on every case the
              model calls clean
"""
import json
import random
import shutil
import tempfile

import lib
from props import schema_gen as sg

MAXU64 = sg.MAXU64


class B:
    """builder of one module set"""

    def __init__(self, rnd):
        self.r = rnd
        self.uid = 0
        self.gid = 0
        self.mods = []
        self.features = []

    def n(self, stem):
        self.uid += 1
        return "%s%d" % (stem, self.uid)

    def mod(self, name, prefix, belongs=None):
        m = dict(name=name, prefix=prefix, ns="" if belongs else "urn:" + name, belongs=belongs, imports=[], includes=[],
                 body=[], augments=[], deviations=[])
        self.mods.append(m)
        return m

    def leaf(self, name=None, dflt=None):
        r = self.r
        return ("leaf", name or self.n("l"), r.choice(sg.BUILTINS), self.tri(), self.tri(0.1), dflt, r.choice([None, "u1"]))

    def tri(self, p=0.25):
        x = self.r.random()
        return None if x > p else (x < p / 2)

    def cont(self, body, name=None):
        if body and self.r.random() < 0.15:
            body = body + [("container", self.n("ec"), None, [])]       # a container without children
        return ("container", name or self.n("c"), self.tri(), body)

    def lst(self, body, name=None, mn=None, mx=None):
        k = self.leaf()
        return ("list", name or self.n("li"), k[1], self.tri(), mn, mx, [k] + body)

    def grouping(self, body, name=None):
        self.gid += 1
        return ("grouping", self.gid, name or self.n("g"), body)

    def nest(self, inner, depth, kinds=("container", "list", "case")):
        """wrap [inner] nodes into `depth` levels of directory nodes; returns (node, path steps to the innermost holder)"""
        r = self.r
        steps = []
        body = inner
        for _ in range(depth):
            k = r.choice(kinds)
            if k == "container":
                nd = self.cont(body)
                st = [nd[1]]
            elif k == "list":
                nd = self.lst(body)
                st = [nd[1]]
            else:
                cs = ("case", self.n("cs"), body)
                nd = ("choice", self.n("ch"), None, None, None, [cs, self.leaf()])
                st = [nd[1], cs[1]]
            steps = st + steps
            body = [nd, self.leaf()] if r.random() < 0.4 else [nd]
        return body, steps

    def shorthand_choice(self):
        r = self.r
        members = []
        for _ in range(r.randint(1, 3)):
            x = r.random()
            if x < 0.4:
                members.append(self.leaf())
            elif x < 0.6:
                members.append(self.cont([self.leaf()]))
            elif x < 0.7:
                members.append(self.lst([]))
            elif x < 0.8:
                members.append(("leaflist", self.n("ll"), "string", None, [], r.choice([None, 1]), r.choice([None, 3])))
            elif x < 0.9:
                members.append(("any", r.random() < 0.5, self.n("any"), None, None))
            else:
                members.append(("case", self.n("cs"), [self.leaf()]))
        return ("choice", self.n("ch"), self.tri(), self.tri(0.1), None, members)


def path(pfx, steps):
    return "/" + "/".join("%s:%s" % (pfx, s) for s in steps)


def compose(rnd):
    b = B(rnd)
    r = rnd
    m0 = b.mod("m0", "p0")
    m1 = b.mod("m1", "p1")
    m1["imports"].append(("x0", "m0"))
    if r.random() < 0.5:
        m0["imports"].append(("x1", "m1"))
    s1 = None
    if r.random() < 0.7:
        s1 = b.mod("m0s1", "p0", "m0")
        m0["includes"].append("m0s1")
        s1["imports"] = list(m0["imports"])
    feats = ["uses_in_uses", "uses_in_augment", "augment_into_uses", "sub_augments", "shorthand_everywhere", "ns_under_list",
             "augment_chain", "lazy_io", "deviate_attrs", "rpc_choice_input", "augment_via_implicit_case", "augment_choice_members", "augment_choice_members", "orphan_submodule", "augment_rpc_node", "empty_hooks",
             "empty_hooks"]
    late = ["two_augments_same", "two_augments_modules", "augment_vs_uses", "augment_leaf_target", "augment_missing",
            "dev_missing", "dev_min_nonlist", "dev_add_default_twice", "dev_delete_mismatch", "dev_ns_twice", "dev_bad_type",
            "dev_max_zero", "dup_in_uses", "unknown_type_rpc_input", "choice_dup_after_fix", "sub_dup", "ns_on_input",
            "dev_unknown_kind", "dup_into_second_copy", "dup_into_second_copy"]
    chosen = list(dict.fromkeys(r.sample(feats, r.randint(2, 5))))
    if r.random() < 0.45:
        chosen += r.sample(late, r.randint(1, 2))
    r.shuffle(chosen)
    b.features = chosen
    for f in chosen:
        FEATURES[f](b, m0, m1, s1)
    if r.random() < 0.5:
        # plain filler
        m1["body"].append(b.cont([b.leaf(), b.shorthand_choice()]))
    for m in b.mods:
        if not m["body"]:
            m["body"].append(b.leaf())
    return b


# ------------------------------------------------------------------ features (clean)
def f_uses_in_uses(b, m0, m1, s1):
    g3 = b.grouping([b.leaf(), b.lst([b.leaf()], mn=1, mx=5), b.shorthand_choice()])
    g2 = b.grouping([b.cont([("uses", g3[2]), b.leaf()]), ("uses", g3[2])] if b.r.random() < 0.5 else
                    [b.cont([b.cont([("uses", g3[2])])])])
    g1 = b.grouping([b.lst([("uses", g2[2])]), b.leaf()])
    home = b.r.choice([m0, s1] if s1 else [m0])
    home["body"] += [g3, g2, g1]
    body, _ = b.nest([("uses", g1[2])], 3, kinds=("container", "list", "case"))
    home["body"] += body
    if home is m0 and b.r.random() < 0.5:
        # and once more from the other module
        m1["body"].append(b.cont([("uses", "x0:" + g1[2])]))


def f_uses_in_augment(b, m0, m1, s1):
    g = b.grouping([b.leaf(), b.cont([b.leaf(), b.shorthand_choice()])])
    body, steps = b.nest([b.leaf()], 3)
    m0["body"] += body
    src = b.r.choice([m0, m1] + ([s1] if s1 else []))
    if src is m1:
        m1["body"].append(g)
        m1["augments"].append((path("x0", steps), [("uses", g[2]), b.leaf()]))
    else:
        src["body"].append(g)
        src["augments"].append((path("p0", steps), [("uses", "p0:" + g[2]), b.leaf()]))


def f_augment_into_uses(b, m0, m1, s1):
    inner, steps = b.nest([b.leaf()], 2, kinds=("container", "list"))
    g = b.grouping(inner + [b.leaf()])
    m0["body"].append(g)
    holder = b.cont([("uses", g[2])])
    holder2 = b.cont([("uses", g[2])])
    m0["body"] += [holder, holder2]
    src, pfx = b.r.choice([(m0, "p0"), (m1, "x0")])
    src["augments"].append((path(pfx, [holder[1]] + steps), [b.leaf(), b.cont([b.leaf()])]))


def f_sub_augments(b, m0, m1, s1):
    if s1 is None:
        return f_augment_chain(b, m0, m1, s1)
    body, steps = b.nest([b.leaf()], 3)
    m0["body"] += body
    body2, steps2 = b.nest([b.leaf()], 2)
    s1["body"] += body2
    s1["augments"].append((path("p0", steps), [b.leaf(), b.shorthand_choice()]))
    s1["augments"].append((path("p0", steps2), [b.cont([b.leaf()])]))
    if b.r.random() < 0.5:
        m0["augments"].append((path("p0", steps2), [b.leaf()]))


def f_shorthand_everywhere(b, m0, m1, s1):
    g = b.grouping([b.shorthand_choice(), b.cont([b.shorthand_choice()])])
    m0["body"].append(g)
    body, steps = b.nest([b.shorthand_choice(), ("uses", g[2])], 3)
    m0["body"] += body
    m0["body"].append(("rpc", False, b.n("rpc"), [b.shorthand_choice(), b.cont([b.shorthand_choice()])],
                       [b.shorthand_choice()] if b.r.random() < 0.6 else None))
    m0["body"].append(b.lst([("rpc", True, b.n("act"), [b.shorthand_choice()], [b.lst([b.shorthand_choice()])])]))
    m1["augments"].append((path("x0", steps), [b.shorthand_choice()]))
    m0["body"].append(("notification", b.n("nt"), [b.shorthand_choice()]))
    # a choice nested in a case of a choice, members shorthand
    m0["body"].append(("choice", b.n("ch"), None, None, None, [("case", b.n("cs"), [b.shorthand_choice()]), b.leaf()]))


def f_ns_under_list(b, m0, m1, s1):
    victim = b.r.choice([b.leaf(), b.cont([b.leaf()]), ("leaflist", b.n("ll"), "string", None, [], None, None), b.lst([])])
    inner, steps = b.nest([victim, b.leaf()], 2, kinds=("container", "list"))
    top = b.lst(inner)
    m0["body"].append(top)
    src, pfx = b.r.choice([(m0, "p0"), (m1, "x0")])
    src["deviations"].append((path(pfx, [top[1]] + steps + [victim[1]]), [dict(kind="not-supported")]))


def f_augment_chain(b, m0, m1, s1):
    c = b.cont([b.leaf()])
    m0["body"].append(c)
    a1 = b.cont([b.leaf()])
    a2 = b.cont([b.leaf()])
    augs = [(m1, path("x0", [c[1]]), [a1]), (m1, path("x0", [c[1], a1[1]]), [a2]),
            (m0, path("p0", [c[1], a1[1], a2[1]]), [b.leaf(), b.shorthand_choice()])]
    b.r.shuffle(augs)
    for m, p, body in augs:
        m["augments"].append((p, body))


def f_lazy_io(b, m0, m1, s1):
    rp = ("rpc", False, b.n("rpc"), None, None if b.r.random() < 0.5 else [b.leaf()])
    m0["body"].append(rp)
    act = ("rpc", True, b.n("act"), [b.leaf()], None)     # an action with neither input nor output has no RPC record
    holder = b.lst([act])
    m0["body"].append(holder)
    m1["augments"].append((path("x0", [rp[2], "input"]), [b.leaf(), b.shorthand_choice()]))
    if b.r.random() < 0.7:
        m0["augments"].append((path("p0", [holder[1], act[2], "output"]), [b.cont([b.leaf()])]))
    if b.r.random() < 0.4:
        m1["deviations"].append((path("x0", [rp[2], "output"]), [dict(kind="replace", cfg=False)]))


def f_deviate_attrs(b, m0, m1, s1):
    l = ("leaf", b.n("l"), "string", None, None, "d0", None)
    ll = ("leaflist", b.n("ll"), "string", None, ["a"], 1, 4)
    li = b.lst([b.leaf()], mn=1, mx=4)
    g = b.grouping([l, ll, li])
    m0["body"].append(g)
    h1 = b.cont([b.cont([("uses", g[2])])])
    h2 = b.cont([("uses", g[2])])
    m0["body"] += [h1, h2]
    base = [h1[1], h1[3][0][1]]
    dv = m1["deviations"]
    r = b.r
    dv.append((path("x0", base + [l[1]]), [r.choice([dict(kind="replace", default="zz"), dict(kind="delete", default="d0"),
                                                      dict(kind="add", units="u9", mand=True),
                                                      dict(kind="replace", type="uint8")])]))
    dv.append((path("x0", base + [ll[1]]), [r.choice([dict(kind="add", default="b"), dict(kind="replace", min=2, max=3),
                                                       dict(kind="delete", min=1), dict(kind="delete", max=4)])]))
    dv.append((path("x0", base + [li[1]]), [r.choice([dict(kind="replace", min=0), dict(kind="add", max=MAXU64, cfg=False),
                                                       dict(kind="delete", min=1, max=4)])]))


def f_augment_via_implicit_case(b, m0, m1, s1):
    """the augment path leads through the implicit case of a shorthand member (exists only after FixChoice) into a
    choice / a container: Process has to fix up the choices, retry, and fix up what the augment added"""
    inner_ch = ("choice", b.n("ch"), None, None, None, [b.leaf()])
    member = b.cont([inner_ch, b.leaf()])
    outer = ("choice", b.n("ch"), None, None, None, [member, b.leaf()])
    holder = b.cont([outer])
    m0["body"].append(holder)
    src, pfx = b.r.choice([(m0, "p0"), (m1, "x0")])
    base = [holder[1], outer[1], member[1], member[1]]
    src["augments"].append((path(pfx, base + [inner_ch[1]]), [b.leaf(), b.cont([b.shorthand_choice()])]))
    if b.r.random() < 0.5:
        m1["augments"].append((path("x0", base), [b.shorthand_choice()]))


def f_empty_hooks(b, m0, m1, s1):
    """a grouping with directory nodes WITHOUT children (augmentation hooks), used two or three times (same module,
    submodule, importing module); one instance, or two instances with equally named children, are augmented: the copies
    must not share their (empty) child map"""
    r = b.r
    hooks = []
    body = []
    for k in r.sample(["container", "list", "choice", "case", "actin", "actout"], r.randint(2, 5)):
        if k == "container":
            h = ("container", b.n("hk"), None, [])
            st = [h[1]]
        elif k == "list":
            h = ("list", b.n("hl"), None, None, None, None, [])
            st = [h[1]]
        elif k == "choice":
            h = ("choice", b.n("hch"), None, None, None, [])
            st = [h[1]]
        elif k == "case":
            cs = ("case", b.n("hcs"), [])
            h = ("choice", b.n("hch"), None, None, None, [cs])
            st = [h[1], cs[1]]
        elif k == "actin":
            h = ("rpc", True, b.n("hact"), [], None)
            st = [h[2], "input"]
        else:
            h = ("rpc", True, b.n("hact"), None, [])
            st = [h[2], "output"]
        for _ in range(r.randint(0, 2)):
            h = b.cont([h])
            st = [h[1]] + st
        body.append(h)
        hooks.append((st, k))
    g = b.grouping(body + [b.leaf()])
    m0["body"].append(g)
    users = [(m0, g[2], "p0", "m0"), (m0, "p0:" + g[2], "p0", "m0"), (m1, "x0:" + g[2], "p1", "m1")]
    # (a submodule does not see the groupings of the module it belongs to: FindGrouping starts at the submodule)
    inst = []
    for (m, ref, pfx, owner) in r.sample(users, r.randint(2, 3)):
        c = b.cont([("uses", ref)])
        m["body"].append(c)
        inst.append((c[1], owner))
    # augment one instance (or two, same child name) of one or two hooks, from m1 (imports m0) or from the owner
    for (st, k) in r.sample(hooks, min(len(hooks), r.randint(1, 2))):
        targets = r.sample(inst, 2 if r.random() < 0.5 else 1)
        nm = b.n("aug")
        for (cname, owner) in targets:
            if owner == "m0":
                src, pfx = r.choice([(m0, "p0"), (m1, "x0")])
            else:
                src, pfx = m1, "p1"
            child = ("case", nm, [b.leaf()]) if k == "choice" else ("leaf", nm, r.choice(sg.BUILTINS), None, None, None, None)
            src["augments"].append((path(pfx, [cname] + st), [child]))


def f_augment_choice_members(b, m0, m1, s1):
    """augments whose target is a CHOICE and whose bodies hold every kind of member -- a nested choice (the parser rejects
    choice directly inside choice, so this arises only through augments), directly and through uses of a grouping with a
    top-level choice, anydata/anyxml/list/leaf-list/container/leaf shorthand members, cases: after a clean Process every
    child of the target must be a case"""
    r = b.r
    tgt = ("choice", b.n("ch"), None, None, None, [("case", b.n("cs"), [b.leaf()])] if r.random() < 0.6 else [])
    body, steps = b.nest([tgt], r.randint(1, 3), kinds=("container", "list"))
    m0["body"] += body
    steps = steps + [tgt[1]]
    inner = ("choice", b.n("ich"), None, None, None, [b.leaf(), ("case", b.n("cs"), [b.leaf()])])
    g = b.grouping([("choice", b.n("gch"), None, None, None, [b.cont([b.leaf()]), b.leaf()]), b.leaf()])
    m0["body"].append(g)
    members = [inner, ("uses", None), ("any", True, b.n("any"), None, None), ("any", False, b.n("any"), None, None),
               b.lst([]), ("leaflist", b.n("ll"), "string", None, [], None, None), b.cont([b.shorthand_choice()]), b.leaf(),
               ("case", b.n("cs"), [b.leaf(), ("choice", b.n("ich"), None, None, None, [b.leaf()])])]
    chosen = r.sample(members, r.randint(2, 5))
    if r.random() < 0.7 and inner not in chosen:
        chosen.append(inner)
    srcs = [(m0, "p0", g[2]), (m1, "x0", "x0:" + g[2])]
    for mem in chosen:
        src, pfx, gref = r.choice(srcs)
        if mem[0] == "uses":
            mem = ("uses", gref)
        src["augments"].append((path(pfx, steps), [mem]))



def gen_subs_only(rnd):
    """a module set that consists of submodules only (their module is not read): everything Process does -- error sweep,
    FixChoice, augments, deviations -- applies to them all the same"""
    b = B(rnd)
    r = rnd
    s1 = b.mod("s1", "p0", "m0")
    subs = [s1]
    if r.random() < 0.6:
        s2 = b.mod("s2", r.choice(["p0", "q0"]), "m0")
        subs.append(s2)
        # (no include between them: the library reports the include statements of a submodule that no module includes
        # as unresolved, which the core model does not do)
    feats = []
    for sm in subs:
        c = b.cont([b.leaf(), b.shorthand_choice()])
        sm["body"].append(c)
        if r.random() < 0.6:
            g = b.grouping([b.shorthand_choice(), b.leaf()])
            sm["body"] += [g, b.lst([("uses", g[2])])]
            feats.append("uses")
        if r.random() < 0.3:
            sm["body"].append(("rpc", False, b.n("rpc"), [b.shorthand_choice()], None))
        x = r.random()
        if x < 0.2:
            sm["body"].append(("leaf", b.n("l"), "nosuchtype", None, None, None, None))
            feats.append("unknown_type")
        elif x < 0.35:
            sm["body"].append(b.cont([b.leaf("dup"), b.cont([], name="dup") if False else b.leaf("dup")]))
            feats.append("duplicate")
        if r.random() < 0.3:
            # prefixed: the module the prefix names is not there, so this has to be reported.  (An UNPREFIXED path would be
            # resolved by the library in the submodule's private tree, which the core model does not keep.)
            sm["augments"].append(("/%s:%s" % (sm["prefix"], c[1]), [b.leaf(), b.shorthand_choice()]))
            feats.append("own_augment")
        if r.random() < 0.3:
            sm["deviations"].append(("/%s:%s/%s:%s" % (sm["prefix"], c[1], sm["prefix"], c[3][0][1]), [dict(kind="replace", cfg=False)]))
            feats.append("own_deviation")
    return b.mods, ["subs_only"] + sorted(set(feats))


def f_orphan_submodule(b, m0, m1, s1):
    """a submodule that NO module includes imports a module nobody else imports and augments / deviates it; the imported
    module holds shorthand choices.  (With the imported module only on the search path this is the configuration of the
    repaired defect D72: see the on-demand family.)"""
    r = b.r
    mx = b.mod("mx", "px")
    ch = b.shorthand_choice()
    c = b.cont([b.leaf(), ch, b.cont([b.leaf()])])
    mx["body"] += [c, b.shorthand_choice()]
    orph = b.mod("orph", r.choice(["p0", "po"]), "m0")
    orph["imports"].append(("ix", "mx"))
    orph["body"].append(b.cont([b.leaf()]))
    orph["augments"].append((path("ix", [c[1]]), [b.leaf(), b.shorthand_choice()]))
    if r.random() < 0.6:
        orph["augments"].append((path("ix", [c[1], ch[1]]), [b.leaf()]))
    if r.random() < 0.5:
        orph["deviations"].append((path("ix", [c[1], c[3][0][1]]), [dict(kind="replace", cfg=False)]))
    if r.random() < 0.25:
        orph["augments"].append((path("ix", [c[1]]), [b.leaf(c[3][0][1])]))      # conflict: must be reported


def f_dup_into_second_copy(b, m0, m1, s1):
    """a grouping used twice in one module (rpc input and output; two containers); an augment collides with a node of ONE
    of the copies (sometimes of each): the error is recorded late, on a copy whose statement another copy shares"""
    r = b.r
    x = b.cont([b.leaf("a"), b.leaf()], name=b.n("x"))
    g = b.grouping([x, b.leaf()])
    m0["body"].append(g)
    if r.random() < 0.6:
        rp = ("rpc", False, b.n("rpc"), [("uses", g[2])], [("uses", g[2])])
        m0["body"].append(rp)
        sites = [[rp[2], "input"], [rp[2], "output"]]
    else:
        c1, c2 = b.cont([("uses", g[2])]), b.cont([("uses", g[2])])
        m0["body"] += [c1, c2]
        sites = [[c1[1]], [c2[1]]]
    hit = r.sample(sites, r.choice([1, 1, 2]))
    for st in hit:
        src, pfx = r.choice([(m0, "p0"), (m1, "x0")])
        src["augments"].append((path(pfx, st + [x[1]]), [b.leaf("a")]))       # collides with leaf a of that copy


def f_augment_rpc_node(b, m0, m1, s1):
    """an augment whose path names an rpc / action node ITSELF (its child map exists and is empty), in a module whose
    other augments all resolve"""
    r = b.r
    rp = ("rpc", False, b.n("rpc"), [b.leaf()] if r.random() < 0.5 else None, None)
    act = ("rpc", True, b.n("act"), [b.leaf()], None)
    holder = b.cont([act, b.leaf()])
    m0["body"] += [rp, holder]
    src, pfx = r.choice([(m0, "p0"), (m1, "x0")])
    if r.random() < 0.7:
        src["augments"].append((path(pfx, [rp[2]]), [b.leaf()]))
    if r.random() < 0.5:
        src["augments"].append((path(pfx, [holder[1], act[2]]), [b.cont([b.leaf()])]))
    src["augments"].append((path(pfx, [holder[1]]), [b.leaf()]))


def f_rpc_choice_input(b, m0, m1, s1):
    g = b.grouping([b.shorthand_choice(), b.leaf()])
    m0["body"].append(g)
    m0["body"].append(("rpc", False, b.n("rpc"), [("uses", g[2]), b.cont([b.cont([("uses", g[2])])])], [("uses", g[2])]))


# ------------------------------------------------------------------ late conflicts / errors
def f_two_augments_same(b, m0, m1, s1):
    body, steps = b.nest([b.leaf()], b.r.randint(1, 3))
    m0["body"] += body
    nm = b.n("dup")
    m0["augments"].append((path("p0", steps), [b.leaf(nm)]))
    m0["augments"].append((path("p0", steps), [b.cont([b.leaf()], name=nm)]))


def f_two_augments_modules(b, m0, m1, s1):
    body, steps = b.nest([b.leaf()], b.r.randint(1, 3))
    m0["body"] += body
    nm = b.n("dup")
    srcs = [(m0, "p0"), (m1, "x0")] + ([(s1, "p0")] if s1 else [])
    (ma, pa), (mb, pb) = b.r.sample(srcs, 2)
    ma["augments"].append((path(pa, steps), [b.leaf(nm)]))
    mb["augments"].append((path(pb, steps), [b.leaf(nm)]))


def f_augment_vs_uses(b, m0, m1, s1):
    nm = b.n("dup")
    g = b.grouping([b.cont([b.leaf(nm), b.leaf()], name="gx" + nm)])
    m0["body"].append(g)
    h = b.cont([b.cont([("uses", g[2])])])
    m0["body"].append(h)
    m1["augments"].append((path("x0", [h[1], h[3][0][1], "gx" + nm]), [b.leaf(nm)]))


def f_augment_leaf_target(b, m0, m1, s1):
    l = b.leaf()
    body, steps = b.nest([l], 2)
    m0["body"] += body
    m1["augments"].append((path("x0", steps + [l[1]]), [b.leaf()]))


def f_augment_missing(b, m0, m1, s1):
    body, steps = b.nest([b.leaf()], 2)
    m0["body"] += body
    m1["augments"].append((path("x0", steps + ["nosuch"]), [b.leaf()]))


def f_dev_missing(b, m0, m1, s1):
    body, steps = b.nest([b.leaf()], 2)
    m0["body"] += body
    m1["deviations"].append((path("x0", steps + ["nosuch"]), [dict(kind="not-supported")]))


def f_dev_min_nonlist(b, m0, m1, s1):
    l = b.leaf()
    body, steps = b.nest([l], 2)
    m0["body"] += body
    m1["deviations"].append((path("x0", steps + [l[1]]), [dict(kind=b.r.choice(["add", "replace", "delete"]),
                                                               **{b.r.choice(["min", "max"]): 2})]))


def f_dev_add_default_twice(b, m0, m1, s1):
    l = ("leaf", b.n("l"), "string", None, None, b.r.choice([None, "d0"]), None)
    body, steps = b.nest([l], 2)
    m0["body"] += body
    m1["deviations"].append((path("x0", steps + [l[1]]), [dict(kind="add", default="a"), dict(kind="add", default="b")]))


def f_dev_delete_mismatch(b, m0, m1, s1):
    l = ("leaf", b.n("l"), "string", None, None, b.r.choice([None, "d0"]), None)
    body, steps = b.nest([l], 2)
    m0["body"] += body
    m1["deviations"].append((path("x0", steps + [l[1]]), [dict(kind="delete", default="other")]))


def f_dev_ns_twice(b, m0, m1, s1):
    l = b.leaf()
    body, steps = b.nest([l], 2, kinds=("container", "list"))
    m0["body"] += body
    p = path("x0", steps + [l[1]])
    if b.r.random() < 0.5:
        m1["deviations"].append((p, [dict(kind="not-supported"), dict(kind="not-supported")]))
    else:
        m1["deviations"].append((p, [dict(kind="not-supported")]))
        m1["deviations"].append((p, [dict(kind="not-supported")]))


def f_dev_bad_type(b, m0, m1, s1):
    l = b.leaf()
    m0["body"].append(b.cont([l]))
    m1["deviations"].append((path("x0", [m0["body"][-1][1], l[1]]), [dict(kind="replace", type="nosuchtype")]))


def f_dev_max_zero(b, m0, m1, s1):
    li = b.lst([])
    m0["body"].append(li)
    m1["deviations"].append((path("x0", [li[1]]), [dict(kind="replace", max=0)]))


def f_dup_in_uses(b, m0, m1, s1):
    nm = b.n("dup")
    g = b.grouping([b.leaf(nm)])
    m0["body"].append(g)
    body, _ = b.nest([("uses", g[2]), b.leaf(nm)], 3)
    m0["body"] += body


def f_unknown_type_rpc_input(b, m0, m1, s1):
    bad = ("leaf", b.n("l"), "nosuchtype", None, None, None, None)
    where = b.r.choice(["in", "out", "deep"])
    if where == "in":
        m0["body"].append(("rpc", False, b.n("rpc"), [bad], None))
    elif where == "out":
        m0["body"].append(b.lst([("rpc", True, b.n("act"), None, [b.cont([bad])])]))
    else:
        g = b.grouping([("rpc", True, b.n("act"), [b.shorthand_choice(), bad], None)])
        m0["body"] += [g, b.cont([("uses", g[2])])]


def f_choice_dup_after_fix(b, m0, m1, s1):
    # an augment adds to a choice a case named like an existing shorthand member
    l = b.leaf()
    ch = ("choice", b.n("ch"), None, None, None, [l])
    m0["body"].append(b.cont([ch]))
    m1["augments"].append((path("x0", [m0["body"][-1][1], ch[1]]), [("case", l[1], [b.leaf()])]))


def f_sub_dup(b, m0, m1, s1):
    if s1 is None:
        return f_two_augments_same(b, m0, m1, s1)
    nm = b.n("dup")
    m0["body"].append(b.leaf(nm))
    s1["body"].append(b.cont([b.leaf()], name=nm))


def f_ns_on_input(b, m0, m1, s1):
    rp = ("rpc", False, b.n("rpc"), [b.leaf()], None)
    m0["body"].append(rp)
    m1["deviations"].append((path("x0", [rp[2], "input"]), [dict(kind="not-supported")]))


def f_dev_unknown_kind(b, m0, m1, s1):
    l = b.leaf()
    m0["body"].append(b.cont([l]))
    m1["deviations"].append((path("x0", [m0["body"][-1][1], l[1]]), [dict(kind="frobnicate", cfg=True)]))


FEATURES = {k[2:]: v for k, v in list(globals().items()) if k.startswith("f_")}



# ------------------------------------------------------------------ family "revisions" (text level, implementation only)
# Several revisions of one module loaded together; importers pin a revision (or none: the newest) and augment that
# revision's tree.  The core model has no revisions (the registry is C13's model), so this is an oracle on the
# implementation alone: the generator knows by construction whether some augment conflicts with / misses its target in
# the tree of the revision it is bound to; then Process must report an error, otherwise it must be clean and EVERY tree
# (the harness walks every key of ms.Modules, older revisions included) must be proper and free of recorded errors.
REV_DATES = ["2019-03-03", "2020-01-01", "2021-06-15"]


def gen_revisions(rnd):
    r = rnd
    dates = sorted(r.sample(REV_DATES, r.randint(2, 3)))
    revs = {}
    texts = []
    for d in dates:
        has_x = r.random() < 0.5
        has_d = r.random() < 0.6
        revs[d] = dict(x=has_x, d=has_d)
        body = "    leaf a { type string; }\n"
        if has_x:
            body += "    leaf x { type string; }\n"
        if has_d:
            body += "    container d { leaf q { type string; } }\n"
        texts.append(("base@%s.yang" % d,
                      'module base {\n  namespace "urn:base";\n  prefix b;\n  revision %s;\n  container c {\n%s  }\n}\n' % (d, body)))
    newest = dates[-1]
    expect_err = False
    added = {}      # revision -> names already added to /c by an importer
    kinds = []
    for i in range(r.randint(1, 3)):
        pin = r.choice(dates + [None])
        bound = pin or newest
        imp = "  import base { prefix b; %s}\n" % ("revision-date %s; " % pin if pin else "")
        augs = ""
        for ai in range(r.randint(1, 2)):
            k = r.choice(["x", "x", "into_d", "fresh", "same_as_other"])
            if k == "x":
                augs += '  augment "/b:c" { leaf x { type string; } }\n'
                if revs[bound]["x"] or "x" in added.setdefault(bound, set()):
                    expect_err = True
                added.setdefault(bound, set()).add("x")
            elif k == "into_d":
                augs += '  augment "/b:c/b:d" { leaf y%d%d { type string; } }\n' % (i, ai)
                if not revs[bound]["d"]:
                    expect_err = True
            elif k == "fresh":
                nm = "f%d%d" % (i, r.randint(0, 9))
                augs += '  augment "/b:c" { leaf %s { type string; } }\n' % nm
                if nm in added.setdefault(bound, set()):
                    expect_err = True
                added[bound].add(nm)
            else:
                augs += '  augment "/b:c" { leaf shared { type string; } }\n'
                if "shared" in added.setdefault(bound, set()):
                    expect_err = True
                added[bound].add("shared")
            kinds.append("%s@%s" % (k, pin or "newest"))
        texts.append(("ext%d.yang" % i, 'module ext%d {\n  namespace "urn:ext%d";\n  prefix e%d;\n%s%s}\n' % (i, i, i, imp, augs)))
    r.shuffle(texts)
    return texts, expect_err, kinds



def on_demand_ops(schema, rnd):
    """ops for the `process` command that READ only some modules explicitly (L) and leave the others to be found through
    the search path when an import or include statement asks for them (D = written into a directory on ms.Path);
    None when every module has to be read explicitly.  Every module left to the path is reachable from a module that is
    read, through import / include statements."""
    by = {m["name"]: i for i, m in enumerate(schema)}

    def reach(i, seen):
        m = schema[i]
        for nm in [mn for _, mn in m["imports"]] + list(m["includes"]):
            j = by.get(nm)
            if j is not None and j not in seen:
                seen.add(j)
                reach(j, seen)
        return seen
    included = {sn for m in schema for sn in m["includes"]}
    # starting points: modules, and submodules that nobody includes (they are read on their own; what THEY import may
    # be left to the search path as well -- the configuration of the repaired defect D72)
    idx = [i for i, m in enumerate(schema) if m["belongs"] is None or m["name"] not in included]
    rnd.shuffle(idx)
    roots, covered = [], set()
    for i in idx:
        if i not in covered:
            roots.append(i)
            covered.add(i)
            covered |= reach(i, set())
    for i, m in enumerate(schema):
        if i not in covered:
            roots.append(i)          # a submodule nobody includes: read it
            covered.add(i)
    lazy = [i for i in range(len(schema)) if i not in roots]
    if not lazy:
        return None, 0
    return ",".join(["D%d" % i for i in lazy] + ["L%d" % i for i in sorted(roots)] + ["P"]), len(lazy)


# ------------------------------------------------------------------ family "refine" (text level, implementation only)
# The library ignores the refine substatements of uses (the property excludes refine; the core model has none): the result
# must be exactly the one of the same text without them, and the trees must be proper.
def gen_refine(rnd):
    r = rnd
    nodes = [("box", "container box { leaf inner { type string; } }"), ("lf", "leaf lf { type string; }"),
             ("ll", "leaf-list ll { type string; }"), ("li", "list li { key k; leaf k { type string; } }"),
             ("ch", "choice ch { leaf m1 { type string; } container m2 { leaf q { type string; } } }"), ("ax", "anyxml ax;"),
             ("ad", "anydata ad;")]
    r.shuffle(nodes)
    nodes = nodes[:r.randint(2, len(nodes))]
    subst = ['description "d";', 'default "x";', "config false;", "mandatory true;", "min-elements 1;", "max-elements 4;",
             'presence "p";', 'reference "r";']

    def refines():
        out = ""
        for nm, _ in r.sample(nodes, r.randint(1, len(nodes))):
            tgt = nm if nm != "box" or r.random() < 0.6 else "box/inner"
            out += "      refine %s { %s }\n" % (tgt, " ".join(r.sample(subst, r.randint(1, 3))))
        return out
    sites = []
    for i in range(r.randint(2, 3)):
        k = r.choice(["container", "list", "rpcio"])
        sites.append((k, i))
    def text(with_refine):
        rr = random.Random(7)
        body = "  grouping g {\n%s  }\n" % "".join("    %s\n" % t for _, t in nodes)
        for (k, i), ref in zip(sites, refs):
            u = "uses g {\n%s    }" % ref if with_refine and ref else "uses g;"
            if k == "container":
                body += "  container c%d {\n    %s\n  }\n" % (i, u)
            elif k == "list":
                body += "  list l%d {\n    %s\n  }\n" % (i, u)
            else:
                body += "  rpc r%d {\n    input {\n    %s\n    }\n    output {\n    %s\n    }\n  }\n" % (i, u, u)
        return 'module m0 {\n  namespace "urn:m0";\n  prefix p0;\n%s}\n' % body
    refs = [refines() for _ in sites]
    return text(True), text(False)


# ------------------------------------------------------------------ run
def run_go(lines):
    tmp = tempfile.mkdtemp(prefix="c04cwd")
    try:
        return lib.run_go(lines, cwd=tmp)
    finally:
        shutil.rmtree(tmp, ignore_errors=True)


def walk_flags(n, bad, path=""):
    p = path + "/" + n["name"]
    if n.get("nerr"):
        bad.append("node %s carries %d error(s)" % (p, n["nerr"]))
    if n.get("naugments"):
        bad.append("node %s has %d unapplied augment(s)" % (p, n["naugments"]))
    for c in n.get("children") or []:
        walk_flags(c, bad, p)
    for io in ("input", "output"):
        if n.get(io):
            walk_flags(n[io], bad, p)


def tree_depth(n):
    ds = [tree_depth(c) for c in (n.get("children") or [])] + [tree_depth(n[io]) for io in ("input", "output") if n.get(io)]
    return 1 + max(ds or [0])


def run(res, tier, seed, proof):
    rnd = random.Random(seed)
    n_comp = 700 if tier == "quick" else 12000
    n_rand = 500 if tier == "quick" else 8000
    cases = []
    for i in range(n_comp):
        b = compose(random.Random(rnd.getrandbits(64)))
        opts = "n" if rnd.random() < 0.1 else "-"
        cases.append((b.mods, opts, b.features))
    for i in range(n_rand):
        r2 = random.Random(rnd.getrandbits(64))
        s = sg.random_schema(r2, n_modules=r2.randint(1, 3))
        cases.append((s, "c" if r2.random() < 0.1 else "-", ["random"]))
    n_subs = 120 if tier == "quick" else 2500
    for i in range(n_subs):
        sch, feats = gen_subs_only(random.Random(rnd.getrandbits(64)))
        cases.append((sch, "-", feats))
    go_lines = [sg.go_case(s, opts=o) for (s, o, _) in cases]
    # the model visits the modules in the order the implementation does (sorted names, modules before submodules:
    # schema_gen.model_case's default); the theorems quantify over all orders
    ml_lines = [sg.model_case(s, opts=o) for (s, o, _) in cases]
    go = run_go(go_lines)
    ml = lib.run_ml(ml_lines)
    stats = dict(composed=n_comp, random=n_rand, ok=0, err=0, loaderr=0, features={}, clean_by_feature={}, max_depth=0,
                 clean_nodes=0, lost_error=0, spurious_error=0, forest_mismatch=0, treeviol=0, flags=0)
    viol = [0]

    def violation(what, rep):
        viol[0] += 1
        if viol[0] <= 3:
            res.violation(what, rep)
    for i, ((s, o, feats), g, m) in enumerate(zip(cases, go, ml)):
        st, canon, j = sg.canon_go(g)
        text = "\n".join(sg.render_module(x) for x in s)
        rep = dict(go_case=go_lines[i], ml_case=ml_lines[i], features=feats, text=text)
        for f in feats:
            stats["features"][f] = stats["features"].get(f, 0) + 1
        if st == "loaderr" or st not in ("ok", "err"):
            stats["loaderr"] += 1
            violation("generated text was not accepted by the parser (generator error) or harness failure: %s" % g[:200],
                      dict(rep, kind="generator"))
            continue
        stats[st] += 1
        mst = "ok" if m.startswith("ok") else m
        # (c) clean really means clean
        if st == "ok" and mst == "err":
            stats["lost_error"] += 1
            violation("implementation reports a clean result where the model records an error (lost error): features %s" % feats,
                      dict(rep, kind="lost-error", impl=g[:2000], model=m))
            continue
        if st == "err" and mst == "ok":
            stats["spurious_error"] += 1
            violation("implementation reports an error where the model is clean: %s" % j["runs"][-1]["errors"][:2],
                      dict(rep, kind="spurious-error", errors=j["runs"][-1]["errors"][:5], model=m[:2000]))
            continue
        if mst not in ("ok", "err"):
            violation("model output unreadable: %s" % m[:200], dict(rep, kind="generator"))
            continue
        if st == "err":
            continue
        # (a) forests
        if canon.strip() != m.strip():
            stats["forest_mismatch"] += 1
            violation("model and implementation build different trees: features %s" % feats,
                      dict(rep, kind="correspondence", impl=canon, model=m))
        # (b) proper trees
        run_ = j["runs"][-1]
        for f in feats:
            stats["clean_by_feature"][f] = stats["clean_by_feature"].get(f, 0) + 1
        if run_["treeviol"]:
            stats["treeviol"] += 1
            violation("tree invariant violated after a clean Process: %s" % "; ".join(run_["treeviol"][:3]),
                      dict(rep, kind="treeviol", treeviol=run_["treeviol"]))
        bad = []
        for md in run_["modules"]:
            walk_flags(md["tree"], bad)
            stats["max_depth"] = max(stats["max_depth"], tree_depth(md["tree"]))
        if bad:
            stats["flags"] += 1
            violation("clean result carries recorded errors or pending augments: %s" % "; ".join(bad[:3]),
                      dict(rep, kind="flags", flags=bad[:10]))
    # side condition of theorem C04_T1_choice_clause_side_condition, evaluated by the extracted specification on every
    # case the model calls clean: the reporting pass applied nothing
    side_idx = [i for i, m in enumerate(ml) if m.startswith("ok")]
    side = lib.run_ml(["c04side" + ml_lines[i][len("resolve"):] for i in side_idx])
    stats["side_conditions_checked"] = len(side_idx)
    for i, o in zip(side_idx, side):
        if o != "applied=0":
            stats["side_conditions_failed"] = stats.get("side_conditions_failed", 0) + 1
            violation("the side condition of C04_T1_choice_clause_side_condition does not hold on a clean case: %s" % o,
                      dict(kind="side-condition", ml_case=ml_lines[i], go_case=go_lines[i], features=cases[i][2], obs=o,
                           text="\n".join(sg.render_module(x) for x in cases[i][0])))
    # ---- family "on demand": the same sets with some modules NOT read explicitly but found through the search path when
    # an import / include asks for them.  Everything Process does (error sweeps, augment rounds, FixChoice, deviations)
    # has to reach those modules too: the observation (status, canonical forest of ALL modules, walker, flags) must be
    # the one of the run that read every module explicitly, i.e. the model's.
    od_lines, od_idx = [], []
    stats.update(on_demand_cases=0, on_demand_modules=0, on_demand_clean=0)
    for i, (sch, o, feats) in enumerate(cases):
        ops, n_lazy = on_demand_ops(sch, random.Random(rnd.getrandbits(32)))
        if ops is None or not (go[i].startswith("{")):
            continue
        od_lines.append(sg.go_case(sch, opts=o, ops=ops))
        od_idx.append(i)
        stats["on_demand_cases"] += 1
        stats["on_demand_modules"] += n_lazy
    od_go = run_go(od_lines)
    for i, line, g in zip(od_idx, od_lines, od_go):
        st0, canon0, _ = sg.canon_go(go[i])
        st, canon, j = sg.canon_go(g)
        sch, o, feats = cases[i]
        rep = dict(kind="on-demand", go_case=line, go_case_explicit=go_lines[i], ml_case=ml_lines[i], features=feats,
                   text="\n".join(sg.render_module(x) for x in sch))
        if st0 not in ("ok", "err"):
            continue
        if (st, canon) != (st0, canon0):
            violation("modules found through the search path are processed differently from modules read explicitly: "
                      "explicit=%s on-demand=%s (features %s)" % (st0, st if st != "ok" or st0 != "ok" else "ok, other trees", feats),
                      dict(rep, explicit=(canon0 or st0)[:3000], on_demand=(canon or st)[:3000]))
        if st == "ok":
            stats["on_demand_clean"] += 1
            run_ = j["runs"][-1]
            bad = list(run_["treeviol"] or [])
            for md in run_["modules"]:
                walk_flags(md["tree"], bad)
            if bad:
                violation("tree invariant violated after a clean Process with modules found through the search path: %s"
                          % "; ".join(bad[:3]), dict(rep, treeviol=bad[:10]))

    # ---- family "histories": Process, ClearEntryCache, Process again (command process04 of harness/go/c04.go): what
    # ToEntry hands out after the last Process must again be the processed trees -- same verdict, same forest, walker clean
    hi_lines, hi_idx = [], []
    stats.update(history_cases=0, history_shapes={})
    for i, (sch, o, feats) in enumerate(cases):
        if not go[i].startswith("{") or rnd.random() < 0.4:
            continue
        loads = ["L%d" % k for k in range(len(sch))]
        ops, _ = on_demand_ops(sch, random.Random(rnd.getrandbits(32))) if rnd.random() < 0.3 else (None, 0)
        pre = ops[:-2] if ops else ",".join(loads)
        shape = rnd.choice(["P,C,P", "P,C,P", "P,P", "P,C,P,C,P", "C,P,C,P"])
        if shape.startswith("C"):
            line_ops = "C," + pre + "," + shape[2:]
        else:
            line_ops = pre + "," + shape
        hi_lines.append("process04" + sg.go_case(sch, opts=o, ops=line_ops)[len("process"):])
        hi_idx.append(i)
        stats["history_cases"] += 1
        stats["history_shapes"][shape] = stats["history_shapes"].get(shape, 0) + 1
    hi_go = run_go(hi_lines)
    for i, line, g in zip(hi_idx, hi_lines, hi_go):
        st0, canon0, _ = sg.canon_go(go[i])
        st, canon, j = sg.canon_go(g)
        sch, o, feats = cases[i]
        rep = dict(kind="on-demand", go_case=line, go_case_explicit=go_lines[i], ml_case=ml_lines[i], features=feats,
                   text="\n".join(sg.render_module(x) for x in sch))
        if st0 not in ("ok", "err"):
            continue
        if (st, canon) != (st0, canon0):
            violation("after Process / ClearEntryCache / Process the result differs from a single Process: single=%s history=%s "
                      "(features %s)" % (st0, st if st != "ok" or st0 != "ok" else "ok, other trees", feats),
                      dict(rep, explicit=(canon0 or st0)[:3000], on_demand=(canon or st)[:3000]))
        if st == "ok":
            run_ = j["runs"][-1]
            bad = list(run_["treeviol"] or [])
            for md in run_["modules"]:
                walk_flags(md["tree"], bad)
            if bad:
                violation("tree invariant violated after Process / ClearEntryCache / Process: %s" % "; ".join(bad[:3]),
                          dict(rep, treeviol=bad[:10]))

    # ---- family "refine" (implementation only)
    n_ref = 120 if tier == "quick" else 2500
    refc = [gen_refine(random.Random(rnd.getrandbits(64))) for _ in range(n_ref)]
    ref_lines = []
    for a, b_ in refc:
        for t in (a, b_):
            ref_lines.append("process - L0,P 1 %s %s" % (sg.hx("m0.yang"), sg.hx(t)))
    ref_go = run_go(ref_lines)
    stats["refine_cases"] = n_ref
    for k, (a, b_) in enumerate(refc):
        sa, ca, ja = sg.canon_go(ref_go[2 * k])
        sb, cb, jb = sg.canon_go(ref_go[2 * k + 1])
        rep = dict(kind="revisions", go_case=ref_lines[2 * k], text=a)
        if sb != "ok":
            violation("refine family: the text without refine was not processed cleanly (generator error): %s" % ref_go[2 * k + 1][:200], rep)
            continue
        if (sa, ca) != (sb, cb):
            violation("the refine substatements of a uses changed the result (the library ignores refine): with=%s" % sa,
                      dict(rep, with_refine=(ca or sa)[:2000], without=(cb or sb)[:2000]))
            continue
        bad = list(ja["runs"][-1]["treeviol"] or [])
        for md in ja["runs"][-1]["modules"]:
            walk_flags(md["tree"], bad)
        if bad:
            violation("tree invariant violated after a clean Process of uses with refine: %s" % "; ".join(bad[:3]),
                      dict(rep, treeviol=bad[:10]))

    # ---- family "revisions" (implementation only)
    n_rev = 200 if tier == "quick" else 4000
    revc = [gen_revisions(random.Random(rnd.getrandbits(64))) for _ in range(n_rev)]
    rev_lines = ["process - %s %d %s" % (",".join(["L%d" % i for i in range(len(t))] + ["P"]), len(t),
                                          " ".join("%s %s" % (sg.hx(fn), sg.hx(tx)) for fn, tx in t)) for t, _, _ in revc]
    rev_go = run_go(rev_lines)
    stats.update(revision_cases=n_rev, revision_expected_err=0, revision_clean=0, revision_trees_walked=0)
    for (texts, expect_err, kinds), line, g in zip(revc, rev_lines, rev_go):
        rep = dict(kind="revisions", go_case=line, augments=kinds, text="\n".join("// %s\n%s" % (fn, tx) for fn, tx in texts))
        if not g.startswith("{"):
            violation("revisions family: harness failure: %s" % g[:200], rep)
            continue
        j = json.loads(g)
        if any(l.startswith("err") for l in j["loads"]):
            violation("revisions family: a text was rejected: %s" % j["loads"], rep)
            continue
        run_ = j["runs"][-1]
        got_err = bool(run_["errors"])
        stats["revision_expected_err" if expect_err else "revision_clean"] += 1
        if expect_err and not got_err:
            bad = list(run_["treeviol"] or [])
            violation("clean result although an augment conflicts with / misses its target in the tree of the revision it is "
                      "bound to (lost error): %s; walker: %s" % (kinds, bad[:2]), dict(rep, treeviol=bad))
            continue
        if got_err and not expect_err:
            violation("error reported although every augment applies cleanly to the revision it is bound to: %s"
                      % run_["errors"][:2], dict(rep, errors=run_["errors"][:5]))
            continue
        if not got_err:
            stats["revision_trees_walked"] += len(run_["modules"])
            bad = list(run_["treeviol"] or [])
            for md in run_["modules"]:
                walk_flags(md["tree"], bad)
            if bad:
                violation("tree invariant violated after a clean Process (some revision's tree): %s" % "; ".join(bad[:3]),
                          dict(rep, treeviol=bad[:10]))
    reader_stats = reader_leg(cases, ml_lines, ml, tier, n_comp)      # machinery self-check (raises on a fault)
    cov = dict(
        evaluations=len(cases) + len(side_idx) + n_rev + len(od_lines) + len(hi_lines) + 2 * n_ref, distinct_nontrivial=stats["ok"] + stats["err"],
        rule="family `histories`: 60% of the sets once more through Process / ClearEntryCache / Process (shapes P,C,P; P,P; "
             "P,C,P,C,P; C,P,C,P; partly with modules left to the search path): verdict, forest and walker as after a single "
             "Process.  Sets consisting of submodules only (shorthand choices, uses, rpc input, unknown type, duplicate, "
             "augment, deviation).  Feature orphan_submodule: a submodule nobody includes imports, augments and deviates a "
             "module nobody else imports (in the on-demand family that module may be only on the search path: D72).  "
             "Family `on demand`: every composed / random set once more with only some modules read explicitly and the others "
             "(reachable through import / include) found on the search path (ops D of the process command): same status, same "
             "canonical forest over ALL modules, walker and flags clean.  Family `revisions` (text level, implementation only): 2..3 revisions of module base loaded together, 1..3 importers "
             "pinning a revision (or none) and augmenting /b:c of that revision with a leaf the revision may already have, with "
             "a leaf into a container the revision may lack, or with a name another importer of the same revision adds too; "
             "error expected by construction iff some augment conflicts / finds no target in the tree it is bound to, else "
             "clean and every tree (all revisions) proper.  Composed module sets (m0, m1 importing m0 [and back], optional submodule m0s1): 2..5 features out of uses-in-uses, "
             "uses-in-augment, augment-into-uses-expanded-node, submodule-with-augments, shorthand-choice-everywhere (container, "
             "list, case, grouping, augment, rpc and action input/output, notification), not-supported-under-list, augment "
             "chains in shuffled order, lazily created rpc input/output, attribute deviations on grouping instances, choices "
             "in rpc input via uses, each nested 2..3 levels deep; 45% of the sets add 1..2 late conflicts (two augments one "
             "name in one/two modules, augment vs uses, augment into leaf / nothing, seven kinds of deviation error, duplicate "
             "via uses, unknown type in rpc input/output/action in grouping, case added next to a same-named shorthand member, "
             "submodule duplicate, not-supported on rpc input, unknown deviate kind); plus schema_gen.random_schema sets; "
             "non-trivial = every case the parser accepted",
        exhaustive=False, mismatches=viol[0], distribution=stats,
        samples=[go_lines[0][:300], go_lines[n_comp][:300]],
        sample_observations=[go[0][:300], go[n_comp][:300]],
    )
    cov.update(reader_stats)
    assumptions = [
        "parent pointers and object identity do not exist in the pure model (entries are immutable trees): the clauses "
        "'points back to its parent' and 'reachable by exactly one path / no node object shared' are checked on the "
        "implementation by the pointer-level walker of harness/go/resolve.go (treeviol) -- testing, not proof",
        "types are builtin names or unknown names (typedef resolution: C09); errors are compared by presence only",
        "the family `revisions` has no counterpart in the core model (no revisions there): it is an oracle on the "
        "implementation alone, the expected verdict is known to the generator by construction",
        "the order in which Process visits modules is the `order` argument of the model's Process; the check passes the "
        "implementation's order (sorted names), the theorems quantify over all orders",
    ]
    return cov, assumptions


def replay(rep, res):
    if rep.get("kind") == "on-demand":
        a = sg.canon_go(run_go([rep["go_case_explicit"]])[0])
        b = sg.canon_go(run_go([rep["go_case"]])[0])
        print(rep["text"])
        print("explicit :", (a[1] or a[0])[:3000])
        print("on demand:", (b[1] or b[0])[:3000])
        if b[2] is not None:
            print("treeviol:", b[2]["runs"][-1]["treeviol"])
        return 0 if a[:2] == b[:2] and not (b[2] and b[2]["runs"][-1]["treeviol"]) else 1
    if rep.get("kind") == "revisions":
        g = run_go([rep["go_case"]])[0]
        j = json.loads(g)
        print(rep["text"])
        print("errors:", j["runs"][-1]["errors"][:5])
        print("treeviol:", j["runs"][-1]["treeviol"])
        return 1
    g = run_go([rep["go_case"]])[0]
    m = lib.run_ml([rep["ml_case"]])[0]
    st, canon, j = sg.canon_go(g)
    print(rep.get("text", ""))
    print("features:", rep.get("features"))
    print("impl :", (canon if st == "ok" else st)[:3000])
    if j is not None:
        print("errors:", j["runs"][-1]["errors"][:5])
        print("treeviol:", j["runs"][-1]["treeviol"])
    print("model:", m[:3000])
    bad = []
    if j is not None and st == "ok":
        for md in j["runs"][-1]["modules"]:
            walk_flags(md["tree"], bad)
        bad += j["runs"][-1]["treeviol"] or []
    same = (canon if st == "ok" else st) == m
    return 0 if same and not bad else 1


# ------------------------------------------------------------------ reader leg (appended; coq/Model/Reader.v)
class ReaderFault(RuntimeError):
    """a defect of OUR machinery (renderer / encoder / reader), not a property violation of goyang"""


def canon_gids_schema(schema, start=1):
    """the schema with the ghost ids of its groupings renumbered the way Reader.number_schema assigns them: 1, 2, ... in
    text order (body pre-order, then augments), module after module.  Ghost ids are not in the text."""
    g = [start]

    def node(n):
        k = n[0]
        if k == "grouping":
            gid = g[0]
            g[0] += 1
            return ("grouping", gid, n[2], [node(c) for c in n[3]])
        if k in ("container", "list", "choice", "case", "notification"):
            return tuple(n[:-1]) + ([node(c) for c in n[-1]],)
        if k == "rpc":
            i = None if n[3] is None else [node(c) for c in n[3]]
            o = None if n[4] is None else [node(c) for c in n[4]]
            return (n[0], n[1], n[2], i, o)
        return n
    out = []
    for m in schema:
        m2 = dict(m)
        m2["body"] = [node(c) for c in m["body"]]
        m2["augments"] = [(p, [node(c) for c in b]) for p, b in m["augments"]]
        out.append(m2)
    return out


def resolve_text_case(schema, opts="-", order=None):
    """line for the OCaml command resolve_text: same options and order as schema_gen.model_case, the modules as TEXT"""
    order = order if order is not None else (sorted(m["name"] for m in schema if m["belongs"] is None)
                                             + sorted(m["name"] for m in schema if m["belongs"] is not None))
    o = "e" + ("" if opts == "-" else opts)
    return " ".join(["resolve_text", o] + sg.enc_list(order, lambda n: [sg.hx(n)])
                    + sg.enc_list(schema, lambda m: [sg.hx(sg.render_module(m))]))


def reader_leg(cases, ml_lines, ml, tier, n_comp=0):
    """For every schema of the main families: the texts schema_gen.render_module produces, read back by the Coq reader
    (Lex + Parse + Reader.read_module inside the extracted model), must be the abstract schema the token encoder hands
    to `resolve` (modulo the ghost ids, which the text does not carry), and Process on the texts (Reader.process_text)
    must print what `resolve` printed on the abstract schema.  A mismatch means model and implementation were being
    compared on different schemas: a fault of the checking machinery, raised as an exception."""
    # the parser model costs about 30 ms per module text: the quick tier takes every random and submodule-only set and
    # every third composed set (the first n_comp cases), the thorough tier everything
    import time as _time
    _t0 = _time.time()
    sel = [i for i in range(len(cases)) if tier != "quick" or i >= n_comp or i % 3 == 0]
    lines = [resolve_text_case(cases[i][0], opts=cases[i][1]) for i in sel]
    out = lib.run_ml(lines)
    st = dict(reader_roundtrips=0, reader_modules=0, reader_none=0, resolve_text_cases=0, resolve_text_ok=0,
              resolve_text_err=0, read_text_single=0, reader_cases_selected=len(sel), reader_cases_total=len(cases))
    for i, line, got in zip(sel, lines, out):
        s, o, feats = cases[i]
        text = "\n".join(sg.render_module(x) for x in s)
        if got == "none":
            st["reader_none"] += 1
            raise ReaderFault("machinery fault (reader leg): the Coq reader does not accept a text rendered by schema_gen "
                              "(outside the subset of coq/Model/Reader.v, or mis-rendered); features %s\n%s" % (feats, text))
        if " ;; " not in got:
            raise ReaderFault("machinery fault (reader leg): resolve_text answered %r on\n%s" % (got[:300], text))
        enc, result = got.split(" ;; ", 1)
        want = " ".join(sg.enc_list(canon_gids_schema(s), sg.enc_module))
        if enc != want:
            raise ReaderFault("machinery fault (reader leg): the text rendered by schema_gen.render_module reads back as a "
                              "different abstract schema than the one schema_gen.enc_module encodes for the model; "
                              "features %s\n%s\nread back: %s\nencoded  : %s" % (feats, text, enc, want))
        st["reader_roundtrips"] += 1
        st["reader_modules"] += len(s)
        if result != ml[i]:
            raise ReaderFault("machinery fault (reader leg): Process on the texts (resolve_text) and Process on the abstract "
                              "schema (resolve) differ; features %s\n%s\ntext    : %s\nabstract: %s"
                              % (feats, text, result[:1500], ml[i][:1500]))
        st["resolve_text_cases"] += 1
        st["resolve_text_ok" if result.startswith("ok") else "resolve_text_err"] += 1
    # the single-module command read_text (ghost ids from 1 in every module) on a sample
    step = 1 if tier != "quick" else max(1, len(cases) // 60)
    mods = [m for (s, _, _) in cases[::step] for m in s]
    got1 = lib.run_ml(["read_text " + sg.hx(sg.render_module(m)) for m in mods])
    for m, g1 in zip(mods, got1):
        want = " ".join(sg.enc_module(canon_gids_schema([m])[0]))
        if g1 != want:
            raise ReaderFault("machinery fault (reader leg): read_text(render_module(m)) differs from enc_module(m)\n%s\n"
                              "read back: %s\nencoded  : %s" % (sg.render_module(m), g1, want))
        st["read_text_single"] += 1
    st["reader_leg_wall_s"] = round(_time.time() - _t0, 1)
    return st
