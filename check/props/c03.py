"""C03 — the AST mirrors the statement tree one-to-one or the build fails.

Correspondence: statement trees are rendered to YANG text for the implementation (Modules.Parse + a reflection
dump of the node structs) and to a prefix encoding for the extracted model (Ast.parse_all over the generated
table Gen/YangSchema.v); the two one-line dumps must be identical.  The generators are driven by the generated
table itself (parsed back from coq/Gen/YangSchema.v), so an edited tag changes the sweep with it."""
import os
import random
import re

import lib

SCHEMA_V = os.path.join(lib.COQ, "Gen", "YangSchema.v")


# ------------------------------------------------------------------ the generated table, read back

def load_schema():
    txt = open(SCHEMA_V).read()
    structs, order, cur = {}, [], None
    for line in txt.splitlines():
        m = re.match(r'\s*SDef "([^"]*)" (true|false) \[([^\]]*)\] \[', line)
        if m:
            cur = m.group(1)
            structs[cur] = []
            order.append(cur)
            continue
        m = re.match(r'\s*Field "([^"]*)" \((\w+)(?: "([^"]*)")?\) (true|false) \[([^\]]*)\]', line)
        if m and cur is not None:
            kinds = re.findall(r'"([^"]*)"', m.group(5))
            structs[cur].append(dict(key=m.group(1), kind=m.group(2), ty=m.group(3), req=m.group(4) == "true",
                                     reqkinds=kinds))
    nm = txt.split("Definition name_map", 1)[1]
    names = dict(re.findall(r'\("([^"]*)", "([^"]*)"\)', nm.split("Definition schema")[0]))
    al = txt.split("Definition aliases", 1)[1].split("].", 1)[0]
    aliases = dict(re.findall(r'\("([^"]*)", "([^"]*)"\)', al))
    return structs, order, names, aliases


# ------------------------------------------------------------------ trees: (kw, arg|None, [subs])

def render(forest):
    """YANG text, one statement per line, and the line:col of every statement in pre-order"""
    out, pos = [], []

    def go(s, ind):
        kw, arg, subs = s
        head = "  " * ind + kw + ("" if arg is None else ' "%s"' % arg)
        pos.append("%d:%d" % (len(out) + 1, 2 * ind + 1))
        if subs:
            out.append(head + " {")
            for c in subs:
                go(c, ind + 1)
            out.append("  " * ind + "}")
        else:
            out.append(head + ";")
    for s in forest:
        go(s, 0)
    return "\n".join(out) + "\n", pos


def encode(forest, pos):
    toks = [str(len(forest))]
    it = iter(pos)

    def go(s):
        kw, arg, subs = s
        toks.append(lib.hexs(kw.encode()))
        toks.append("N" if arg is None else ("E" if arg == "" else arg.encode().hex()))
        toks.append(next(it))
        toks.append(str(len(subs)))
        for c in subs:
            go(c)
    for s in forest:
        go(s)
    return toks


def case_line(forest):
    text, pos = render(forest)
    return "ast %s %s" % (lib.hexs(text.encode()), " ".join(encode(forest, pos)))


def size(forest):
    return sum(1 + size(s[2]) for s in forest)


# ------------------------------------------------------------------ table-driven construction

class Table:
    def __init__(self):
        self.structs, self.order, self.names, self.aliases = load_schema()
        self.kw_of_struct = {}
        for k, t in self.names.items():
            self.kw_of_struct.setdefault(t, []).append(k)
        # keywords that build a given struct at top level include alias sources
        for a, k in self.aliases.items():
            if k in self.names:
                self.kw_of_struct[self.names[k]].append(a)

    def struct_for(self, kw):
        return self.names.get(self.aliases.get(kw, kw))

    def children(self, ty):
        return [f for f in self.structs[ty] if f["kind"] in ("FSingle", "FMulti")]

    def required_keys(self, ty, kw):
        r = []
        for f in self.structs[ty]:
            if f["req"] or kw in f["reqkinds"]:
                r.append(f["key"])
        return r

    def minimal(self, kw, arg="x", depth=0):
        """smallest tree for keyword kw that the builder accepts"""
        ty = self.struct_for(kw)
        subs = []
        if ty is not None and depth < 8:
            for k in self.required_keys(ty, kw):
                subs.append(self.minimal(k, "r", depth + 1))
        return (kw, arg, subs)

    def paths(self):
        """for every (struct, keyword building it): a chain of keywords from a module down to it"""
        res = {}
        todo = []
        for kw in ("module", "submodule"):
            ty = self.struct_for(kw)
            if ty:
                res[(ty, kw)] = [kw]
                todo.append((ty, kw))
        while todo:
            ty, kw = todo.pop(0)
            for f in self.children(ty):
                key = (f["ty"], f["key"])
                # the struct really built for the keyword is the name map's
                t2 = self.struct_for(f["key"])
                if t2 is None:
                    continue
                key = (t2, f["key"])
                if key not in res:
                    res[key] = res[(ty, kw)] + [f["key"]]
                    todo.append(key)
        return res

    def wrap(self, chain, target):
        """module { required...; next { required...; ... target } }  along the chain (target replaces the last link)"""
        def go(i):
            if i == len(chain) - 1:
                return target
            kw = chain[i]
            ty = self.struct_for(kw)
            nxt = chain[i + 1]
            subs = [self.minimal(k, "r") for k in self.required_keys(ty, kw) if k != nxt]
            subs.append(go(i + 1))
            return (kw, "m" if i == 0 else "p", subs)
        return go(0)


PSEUDO = ["Name", "Statement", "Parent", "Ext"]
ODD = ["bogus", "x:ext", "x:ext2", "a:b:c", ":", "a:", ":b", "::", "meta", "module", "submodule", "Module"]


def sweep(tb):
    cases = []
    hist = dict(pair_once=0, pair_twice=0, required_omitted=0, odd_keyword=0, toplevel=0, two_errors=0)
    paths = tb.paths()
    for (ty, kw), chain in sorted(paths.items()):
        req = tb.required_keys(ty, kw)

        def ctx(subs, arg="n"):
            return [tb.wrap(chain, (kw, arg, subs))]
        base = [tb.minimal(k, "r") for k in req]
        cases.append(case_line(ctx(base)))
        for f in tb.children(ty):
            c = f["key"]
            others = [tb.minimal(k, "r") for k in req if k != c]
            one = tb.minimal(c, "c1")
            two = tb.minimal(c, "c2")
            cases.append(case_line(ctx(others + [one])))
            cases.append(case_line(ctx([one] + others + [two])))
            cases.append(case_line(ctx(others + [one, two])))
            hist["pair_once"] += 1
            hist["pair_twice"] += 2
        for k in req:
            cases.append(case_line(ctx([tb.minimal(x, "r") for x in req if x != k])))
            hist["required_omitted"] += 1
        for k in PSEUDO + ODD:
            cases.append(case_line(ctx(base + [(k, "o", [])])))
            cases.append(case_line(ctx([(k, None, [])] + base)))
            hist["odd_keyword"] += 2
        # two things wrong at once: which error comes first (depth-first, source order, then required checks)
        errs = [[("bogus", "e", [])]]
        for f in tb.children(ty):
            t2 = tb.struct_for(f["key"])
            if t2 and tb.required_keys(t2, f["key"]) and f["key"] not in req:
                errs.append([(f["key"], "lacks", [])])
                break
        for f in tb.children(ty):
            if f["kind"] == "FSingle" and f["key"] not in req and not f["reqkinds"]:
                errs.append([tb.minimal(f["key"], "d1"), tb.minimal(f["key"], "d2")])
                break
        if tb.struct_for("x:e") is None and not any(f["kind"] == "FExt" for f in tb.structs[ty]):
            errs.append([("x:e", "noext", [])])
        for a in errs:
            for b in errs:
                if a is not b:
                    cases.append(case_line(ctx(base + a + b)))
                    hist["two_errors"] += 1
            for k in req:
                less = [tb.minimal(x, "r") for x in req if x != k]
                cases.append(case_line(ctx(less + a)))
                cases.append(case_line(ctx(a + less)))
                hist["two_errors"] += 2
        # two extensions and a field interleaved: order inside the extension list
        kids = tb.children(ty)
        mid = [tb.minimal(kids[0]["key"], "k")] if kids and kids[0]["key"] not in req else []
        cases.append(case_line(ctx([("p:one", "1", [])] + base + mid + [("q:two", None, [("inner", "i", [])])])))
        # no argument / empty argument
        cases.append(case_line(ctx(base, None)))
        cases.append(case_line(ctx(base, "")))
    # top level
    tops = sorted(set(tb.names) | set(tb.aliases)) + PSEUDO + ODD
    for k in tops:
        cases.append(case_line([tb.minimal(k, "t")]))
        cases.append(case_line([tb.minimal("module", "m0"), tb.minimal(k, "t")]))
        cases.append(case_line([tb.minimal(k, "t"), tb.minimal("module", "m0")]))
        hist["toplevel"] += 3
    cases.append("ast - 0")
    cases.append(case_line([tb.minimal("module", "m0"), tb.minimal("submodule", "m0"), tb.minimal("module", "m1"),
                            tb.minimal("submodule", "s1")]))
    return cases, hist


def random_tree(tb, rnd, kw, depth, budget, q):
    """q = noise: probability of a junk child / an omitted required child / a repeated single child"""
    ty = tb.struct_for(kw)
    arg = rnd.choice([None, "", "a", "b", "some text", "x1"])
    subs = []
    if ty is None or depth <= 0:
        if ty is not None:
            return tb.minimal(kw, arg if arg is not None else "d")
        if rnd.random() < 0.3:
            subs = [("any", "z", [])]
        return (kw, arg, subs)
    fields = tb.structs[ty]
    kids = [f["key"] for f in fields if f["kind"] in ("FSingle", "FMulti")]
    singles = [f["key"] for f in fields if f["kind"] == "FSingle"]
    has_ext = any(f["kind"] == "FExt" for f in fields)
    other = [f["key"] for f in fields if any(n != kw for n in f["reqkinds"])]
    want = [k for k in tb.required_keys(ty, kw) if rnd.random() >= q]
    n = rnd.choice([0, 1, 2, 3, 4, 6, 8])
    for _ in range(n):
        r = rnd.random()
        if r < q:
            want.append(rnd.choice(PSEUDO + ["bogus", "a:b:c", "module", "submodule"] + sorted(tb.names)))
        elif r < q + 0.15 and (has_ext or rnd.random() < q):
            want.append(rnd.choice(["e:x", "e:y", "pfx:thing", ":", "a:", ":b"]))
        elif kids:
            k = rnd.choice(kids)
            if (k in singles and k in want) or k in other:
                if rnd.random() >= q:
                    continue
            want.append(k)
    rnd.shuffle(want)
    for k in want:
        if budget[0] <= 0 and k not in tb.required_keys(ty, kw):
            continue
        budget[0] -= 1
        subs.append(random_tree(tb, rnd, k, depth - 1, budget, q))
    return (kw, arg, subs)


def randoms(tb, rnd, n):
    cases = []
    for i in range(n):
        forest = []
        ntop = rnd.choice([1, 1, 1, 1, 2, 3])
        q = rnd.choice([0.0, 0.0, 0.01, 0.03, 0.1, 0.3])
        for j in range(ntop):
            r = rnd.random()
            kw = "module" if r < 0.6 else "submodule" if r < 0.9 or q == 0.0 else \
                rnd.choice(sorted(tb.names) + ["bogus", "x:y"])
            t = random_tree(tb, rnd, kw, rnd.choice([1, 2, 3, 4, 5]), [rnd.choice([6, 15, 40, 80])], q)
            forest.append((t[0], "top%d" % j, t[2]))
        cases.append(case_line(forest))
    return cases


def canon(o):
    """errors are compared by position only: "err L:C" / "err nopos" (the model adds the kind)"""
    if o.startswith("PANIC"):
        return "PANIC"
    if o.startswith("err"):
        return " ".join(o.split()[:2])
    return o


def gen(tier, seed):
    tb = Table()
    rnd = random.Random(seed)
    cases, hist = sweep(tb)
    nr = 3000 if tier == "quick" else 60000
    cases += randoms(tb, rnd, nr)
    hist["random_trees"] = nr
    return tb, cases, hist


def run(res, tier, seed, proof):
    tb, cases, hist = gen(tier, seed)
    go, ml, mism = lib.diff_cases(res, cases, canon=canon)
    ok = sum(1 for g in go if g.startswith("ok"))
    err = sum(1 for g in go if g.startswith("err"))
    kinds = {}
    deep = {}
    for c, m in zip(cases, ml):
        t = m.split()
        if len(t) == 3 and t[0] == "err":
            kinds[t[2]] = kinds.get(t[2], 0) + 1
            if t[1] != "nopos" and int(t[1].split(":")[1]) >= 5:      # column 5 = depth 2
                deep[t[2]] = deep.get(t[2], 0) + 1
    other = len(go) - ok - err
    # anything that is neither a dump nor a rejection on the implementation side is a crash of the builder
    for c, g in zip(cases, go):
        if not (g.startswith("ok") or g.startswith("err ")):
            res.violation("implementation neither built nor rejected: %s -> %s" % (c[:200], g[:200]),
                          dict(kind="correspondence", case=c, impl=g, model="(see replay)"))
            break
    nontrivial = len({c for c, g in zip(cases, go) if g.startswith("ok ") and g.count(":") >= 9} |
                     {c for c, g in zip(cases, go) if g.startswith("err")})
    mid = len(cases) // 2
    cov = dict(
        evaluations=len(cases), distinct_nontrivial=nontrivial,
        rule="per-row sweep of the generated table (every struct reachable from module/submodule x every child "
             "field at multiplicity 1 and 2 in two positions; every required field omitted; pseudo keywords "
             "Name/Statement/Parent/Ext, unknown, prefixed and multi-colon keywords, with and without argument; "
             "every keyword at top level alone, before and after a module) plus random trees over the table's "
             "keywords; non-trivial = rejected, or built with at least three nodes.  On rejection the line:col "
             "prefix of the Go error (or its absence) is compared with the position of the statement the model "
             "reports (C16, third sentence, for builder errors)",
        exhaustive=False, mismatches=mism,
        distribution=dict(hist, built=ok, rejected=err, other=other, error_kinds=kinds,
                          error_kinds_reported_at_depth_2_or_more=deep,
                          structs=len(tb.structs), keywords=len(tb.names)),
        samples=[cases[7][:400], cases[mid][:400], cases[-5][:400]],
        sample_observations=[go[7][:400], go[mid][:400], go[-5][:400]],
    )
    assumptions = ["the text handed to Modules.Parse and the tree handed to the model are renderings of the same "
                   "generated tree (one statement per line, arguments double-quoted without escapes)",
                   "top-level statements of one text carry distinct names (Modules.add's duplicate test is not modelled)",
                   "typedef dictionary side effect of build is not observed (C18)"]
    return cov, assumptions


def replay(rep, res):
    c = rep["case"]
    go = lib.run_go([c])[0]
    ml = lib.run_ml([c])[0]
    toks = c.split()
    if len(toks) > 1 and toks[1] != "-":
        print("text :")
        print(bytes.fromhex(toks[1]).decode(errors="replace"))
    print("impl :", go)
    print("model:", ml)
    return 0 if canon(go) == canon(ml) else 1
