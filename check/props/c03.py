"""C03 — the AST mirrors the statement tree one-to-one or the build fails.

Correspondence: statement trees are rendered to YANG text for the implementation (Modules.Parse + a reflection
dump of the node structs) and to a prefix encoding for the extracted model (Ast.parse_all over the generated
table Gen/YangSchema.v); the two one-line dumps must be identical.  The generators are driven by the generated
table itself (parsed back from coq/Gen/YangSchema.v), so an edited tag changes the sweep with it."""
import os
import random
import re

import lib

SCHEMA_V = os.path.join(lib.COQ, "Gen", "YangSchema.v")


# ------------------------------------------------------------------ the generated table, read back

def load_schema():
    txt = open(SCHEMA_V).read()
    structs, order, cur = {}, [], None
    for line in txt.splitlines():
        m = re.match(r'\s*SDef "([^"]*)" (true|false) \[([^\]]*)\] \[', line)
        if m:
            cur = m.group(1)
            structs[cur] = []
            order.append(cur)
            continue
        m = re.match(r'\s*Field "([^"]*)" \((\w+)(?: "([^"]*)")?\) (true|false) \[([^\]]*)\]', line)
        if m and cur is not None:
            kinds = re.findall(r'"([^"]*)"', m.group(5))
            structs[cur].append(dict(key=m.group(1), kind=m.group(2), ty=m.group(3), req=m.group(4) == "true",
                                     reqkinds=kinds))
    nm = txt.split("Definition name_map", 1)[1]
    names = dict(re.findall(r'\("([^"]*)", "([^"]*)"\)', nm.split("Definition schema")[0]))
    al = txt.split("Definition aliases", 1)[1].split("].", 1)[0]
    aliases = dict(re.findall(r'\("([^"]*)", "([^"]*)"\)', al))
    return structs, order, names, aliases


# ------------------------------------------------------------------ trees: (kw, arg|None, [subs])

def render(forest):
    """YANG text, one statement per line, and the line:col of every statement in pre-order"""
    out, pos = [], []

    def go(s, ind):
        kw, arg, subs = s
        head = "  " * ind + kw + ("" if arg is None else ' "%s"' % arg)
        pos.append("%d:%d" % (len(out) + 1, 2 * ind + 1))
        if subs:
            out.append(head + " {")
            for c in subs:
                go(c, ind + 1)
            out.append("  " * ind + "}")
        else:
            out.append(head + ";")
    for s in forest:
        go(s, 0)
    return "\n".join(out) + "\n", pos


def encode(forest, pos):
    toks = [str(len(forest))]
    it = iter(pos)

    def go(s):
        kw, arg, subs = s
        toks.append(lib.hexs(kw.encode()))
        toks.append("N" if arg is None else ("E" if arg == "" else arg.encode().hex()))
        toks.append(next(it))
        toks.append(str(len(subs)))
        for c in subs:
            go(c)
    for s in forest:
        go(s)
    return toks


_FORESTS = []      # every forest handed to case_line, in order (the file leg samples from it)


def case_line(forest):
    text, pos = render(forest)
    _FORESTS.append(forest)
    return "ast %s %s" % (lib.hexs(text.encode()), " ".join(encode(forest, pos)))


def file_case_line(forest, fixed=None):
    """the same text through a file and Modules.Read (twice, then by module name, then after correcting it)"""
    text, pos = render(forest)
    toks = encode(forest, pos)
    if fixed is None:
        return "astfile %s - %s" % (lib.hexs(text.encode()), " ".join(toks))
    text2, pos2 = render(fixed)
    return "astfile %s %s %s %s" % (lib.hexs(text.encode()), lib.hexs(text2.encode()), " ".join(toks),
                                    " ".join(encode(fixed, pos2)))


def size(forest):
    return sum(1 + size(s[2]) for s in forest)


# ------------------------------------------------------------------ table-driven construction

class Table:
    def __init__(self):
        self.structs, self.order, self.names, self.aliases = load_schema()
        self.kw_of_struct = {}
        for k, t in self.names.items():
            self.kw_of_struct.setdefault(t, []).append(k)
        # keywords that build a given struct at top level include alias sources
        for a, k in self.aliases.items():
            if k in self.names:
                self.kw_of_struct[self.names[k]].append(a)

    def struct_for(self, kw):
        return self.names.get(self.aliases.get(kw, kw))

    def children(self, ty):
        return [f for f in self.structs[ty] if f["kind"] in ("FSingle", "FMulti")]

    def required_keys(self, ty, kw):
        r = []
        for f in self.structs[ty]:
            if f["req"] or kw in f["reqkinds"]:
                r.append(f["key"])
        return r

    def minimal(self, kw, arg="x", depth=0):
        """smallest tree for keyword kw that the builder accepts"""
        ty = self.struct_for(kw)
        subs = []
        if ty is not None and depth < 8:
            for k in self.required_keys(ty, kw):
                subs.append(self.minimal(k, "r", depth + 1))
        return (kw, arg, subs)

    def paths(self):
        """for every (struct, keyword building it): a chain of keywords from a module down to it"""
        res = {}
        todo = []
        for kw in ("module", "submodule"):
            ty = self.struct_for(kw)
            if ty:
                res[(ty, kw)] = [kw]
                todo.append((ty, kw))
        while todo:
            ty, kw = todo.pop(0)
            for f in self.children(ty):
                key = (f["ty"], f["key"])
                # the struct really built for the keyword is the name map's
                t2 = self.struct_for(f["key"])
                if t2 is None:
                    continue
                key = (t2, f["key"])
                if key not in res:
                    res[key] = res[(ty, kw)] + [f["key"]]
                    todo.append(key)
        return res

    def wrap(self, chain, target):
        """module { required...; next { required...; ... target } }  along the chain (target replaces the last link)"""
        def go(i):
            if i == len(chain) - 1:
                return target
            kw = chain[i]
            ty = self.struct_for(kw)
            nxt = chain[i + 1]
            subs = [self.minimal(k, "r") for k in self.required_keys(ty, kw) if k != nxt]
            subs.append(go(i + 1))
            return (kw, "m" if i == 0 else "p", subs)
        return go(0)


PSEUDO = ["Name", "Statement", "Parent", "Ext"]
ODD = ["bogus", "x:ext", "x:ext2", "a:b:c", ":", "a:", ":b", "::", "meta", "module", "submodule", "Module"]


def sweep(tb):
    cases = []
    hist = dict(pair_once=0, pair_twice=0, required_omitted=0, odd_keyword=0, toplevel=0, two_errors=0)
    paths = tb.paths()
    for (ty, kw), chain in sorted(paths.items()):
        req = tb.required_keys(ty, kw)

        def ctx(subs, arg="n"):
            return [tb.wrap(chain, (kw, arg, subs))]
        base = [tb.minimal(k, "r") for k in req]
        cases.append(case_line(ctx(base)))
        for f in tb.children(ty):
            c = f["key"]
            others = [tb.minimal(k, "r") for k in req if k != c]
            one = tb.minimal(c, "c1")
            two = tb.minimal(c, "c2")
            cases.append(case_line(ctx(others + [one])))
            cases.append(case_line(ctx([one] + others + [two])))
            cases.append(case_line(ctx(others + [one, two])))
            hist["pair_once"] += 1
            hist["pair_twice"] += 2
        for k in req:
            cases.append(case_line(ctx([tb.minimal(x, "r") for x in req if x != k])))
            hist["required_omitted"] += 1
        for k in PSEUDO + ODD:
            cases.append(case_line(ctx(base + [(k, "o", [])])))
            cases.append(case_line(ctx([(k, None, [])] + base)))
            hist["odd_keyword"] += 2
        # two things wrong at once: which error comes first (depth-first, source order, then required checks)
        errs = [[("bogus", "e", [])]]
        for f in tb.children(ty):
            t2 = tb.struct_for(f["key"])
            if t2 and tb.required_keys(t2, f["key"]) and f["key"] not in req:
                errs.append([(f["key"], "lacks", [])])
                break
        for f in tb.children(ty):
            if f["kind"] == "FSingle" and f["key"] not in req and not f["reqkinds"]:
                errs.append([tb.minimal(f["key"], "d1"), tb.minimal(f["key"], "d2")])
                break
        if tb.struct_for("x:e") is None and not any(f["kind"] == "FExt" for f in tb.structs[ty]):
            errs.append([("x:e", "noext", [])])
        for a in errs:
            for b in errs:
                if a is not b:
                    cases.append(case_line(ctx(base + a + b)))
                    hist["two_errors"] += 1
            for k in req:
                less = [tb.minimal(x, "r") for x in req if x != k]
                cases.append(case_line(ctx(less + a)))
                cases.append(case_line(ctx(a + less)))
                hist["two_errors"] += 2
        # two extensions and a field interleaved: order inside the extension list
        kids = tb.children(ty)
        mid = [tb.minimal(kids[0]["key"], "k")] if kids and kids[0]["key"] not in req else []
        cases.append(case_line(ctx([("p:one", "1", [])] + base + mid + [("q:two", None, [("inner", "i", [])])])))
        # no argument / empty argument
        cases.append(case_line(ctx(base, None)))
        cases.append(case_line(ctx(base, "")))
    # top level
    tops = sorted(set(tb.names) | set(tb.aliases)) + PSEUDO + ODD
    for k in tops:
        cases.append(case_line([tb.minimal(k, "t")]))
        cases.append(case_line([tb.minimal("module", "m0"), tb.minimal(k, "t")]))
        cases.append(case_line([tb.minimal(k, "t"), tb.minimal("module", "m0")]))
        hist["toplevel"] += 3
    cases.append(case_line([]))
    cases.append(case_line([tb.minimal("module", "m0"), tb.minimal("submodule", "m0"), tb.minimal("module", "m1"),
                            tb.minimal("submodule", "s1")]))
    return cases, hist


WIDTHS = [31, 32, 33, 34, 64, 100]


def wide(tb):
    """statements with many substatements of ONE multi-valued keyword (and mixes)"""
    cases = []
    hist = dict(wide_all_pairs=0, wide_widths=0, wide_mixes=0)
    paths = tb.paths()
    pairs = []
    for (ty, kw), chain in sorted(paths.items()):
        for f in tb.children(ty):
            if f["kind"] == "FMulti":
                pairs.append((ty, kw, chain, f["key"]))

    def ctx(ty, kw, chain, subs):
        req = tb.required_keys(ty, kw)
        present = {x[0] for x in subs}
        base = [tb.minimal(k, "r") for k in req if k not in present]
        return [tb.wrap(chain, (kw, "w", base + subs))]
    # every (struct, repeated field) of the table just below and just above 32
    for ty, kw, chain, c in pairs:
        for n in (32, 33):
            cases.append(case_line(ctx(ty, kw, chain, [tb.minimal(c, "n%d" % i) for i in range(n)])))
            hist["wide_all_pairs"] += 1
    # a selection at every width
    pick = [("module", "leaf"), ("module", "container"), ("module", "typedef"), ("module", "import"),
            ("module", "identity"), ("module", "revision"), ("submodule", "typedef"), ("container", "leaf"),
            ("container", "container"), ("container", "must"), ("container", "typedef"), ("list", "leaf"),
            ("type", "enum"), ("type", "bit"), ("type", "type"), ("type", "pattern"), ("leaf", "must"),
            ("leaf", "if-feature"), ("grouping", "typedef"), ("grouping", "grouping"), ("choice", "case"),
            ("identity", "base"), ("uses", "refine"), ("rpc", "typedef"), ("input", "leaf")]
    for ty, kw, chain, c in pairs:
        if (kw, c) in pick:
            for n in WIDTHS:
                cases.append(case_line(ctx(ty, kw, chain, [tb.minimal(c, "v%d" % i) for i in range(n)])))
                hist["wide_widths"] += 1
    # mixes: two wide keywords interleaved, wide + extensions, many statements spread thinly, wide inside wide
    for ty, kw, chain, c in pairs:
        if (kw, c) not in (("module", "leaf"), ("container", "leaf"), ("grouping", "leaf"), ("type", "enum")):
            continue
        other = [f["key"] for f in tb.children(ty) if f["kind"] == "FMulti" and f["key"] != c]
        for n in (33, 40):
            a = [tb.minimal(c, "a%d" % i) for i in range(n)]
            if other:
                b = [tb.minimal(other[0], "b%d" % i) for i in range(n)]
                inter = [x for p in zip(a, b) for x in p]
                cases.append(case_line(ctx(ty, kw, chain, inter)))
                cases.append(case_line(ctx(ty, kw, chain, a + b[:20])))
                thin = []
                for j, o in enumerate(other[:4]):
                    thin += [tb.minimal(o, "t%d_%d" % (j, i)) for i in range(12)]
                cases.append(case_line(ctx(ty, kw, chain, thin + a[:12])))
                hist["wide_mixes"] += 3
            ex = [("x:e%d" % i, "e", []) for i in range(n)]
            cases.append(case_line(ctx(ty, kw, chain, [x for p in zip(a, ex) for x in p])))
            cases.append(case_line(ctx(ty, kw, chain, ex + a[:5])))
            # one bad statement after many good ones: the error position is far down
            cases.append(case_line(ctx(ty, kw, chain, a + [("bogus", "z", [])])))
            hist["wide_mixes"] += 3
    inner = ("container", "in", [tb.minimal("leaf", "l%d" % i) for i in range(34)])
    outer = ("module", "m", [tb.minimal("namespace", "r"), tb.minimal("prefix", "r")] +
             [("container", "o%d" % i, [inner] if i in (0, 35) else []) for i in range(36)])
    cases.append(case_line([outer]))
    cases.append(case_line([tb.minimal("module", "m%d" % i) for i in range(34)]))
    hist["wide_mixes"] += 2
    return cases, hist


def file_cases(tb, rnd, verdicts):
    """the file leg: faulty and good sources through Modules.Read, repeatedly.
    verdicts: (forest, rejected by the model?) of the cases of the first phase"""
    good = tb.minimal("module", "m")
    ns, pf = tb.minimal("namespace", "r"), tb.minimal("prefix", "r")
    leaf = ("leaf", "a", [("type", "string", [])])
    good2 = ("module", "m", [ns, pf, leaf, ("container", "c", [leaf, ("x:ext", "1", [])])])
    sub = ("submodule", "s", [("belongs-to", "m", [("prefix", "p", [])])])
    faulty = [
        [("container", "c", [])],                                                    # top-level non-module
        [("bogus", "c", [])],
        [good, ("container", "c", [])],
        [("module", "m", [ns, pf, ("frobnicate", "x", [])])],                        # unknown keyword
        [("module", "m", [ns, pf, ("container", "c", [("type", "t", [])])])],        # unknown in context
        [("module", "m", [ns, pf, ("leaf", "a", [("type", "t", []), ("type", "u", [])])])],   # repeated type
        [("module", "m", [ns, pf, ("prefix", "q", [])])],
        [("module", "m", [ns, pf, ("leaf", "a", [])])],                              # leaf without type
        [("module", "m", [ns, pf, ("import", "o", [])])],                            # import without prefix
        [("module", "m", [pf])],                                                     # module without namespace
        [("module", "m", [ns])],
        [("submodule", "s", [])],                                                    # submodule without belongs-to
        [("submodule", "s", [("belongs-to", "m", [])])],
        [("submodule", "s", [("belongs-to", "m", [("prefix", "p", [])]), ns])],      # other kind's field
        [("module", "m", [ns, pf, ("container", "c", [("Statement", "zz", [])])])],
        [("module", "m", [ns, pf] + [tb.minimal("leaf", "l%d" % i) for i in range(40)] + [("bogus", "z", [])])],
    ]
    goods = [[good], [good2], [sub], [good2, sub],
             [("module", "m", [ns, pf] + [tb.minimal("leaf", "l%d" % i) for i in range(34)])]]
    cases = []
    hist = dict(file_faulty=0, file_good=0, file_from_sweep=0)
    for f in faulty:
        for fix in goods[:3]:
            cases.append(file_case_line(f, fix))
        cases.append(file_case_line(f, faulty[0]))        # "corrected" into another faulty text
        cases.append(file_case_line(f))
        hist["file_faulty"] += 5
    for g in goods:
        cases.append(file_case_line(g))
        hist["file_good"] += 1
    # an accepted file rewritten into a faulty one must be refused
    for g in goods[:3]:
        for f in faulty[:12]:
            cases.append(file_case_line(g, f))
            hist["file_good"] += 1
    # a sample of the table sweep, the wide statements and the random trees: rejected ones are
    # afterwards corrected into a good module, accepted ones are just read again
    sample = rnd.sample(verdicts, min(600, len(verdicts)))
    for f, rejected in sample:
        cases.append(file_case_line(f, [good2]) if rejected else file_case_line(f))
        hist["file_from_sweep"] += 1
    return cases, hist


# ------------------------------------------------------------------ the history leg

def hist_case_line(ops, forest):
    """parse, then carry out the operations `ops` (see harness/go/c03.go, asthist) and dump the tree again"""
    text, pos = render(forest)
    return "asthist %s %s %s" % (ops or "-", lib.hexs(text.encode()), " ".join(encode(forest, pos)))


def _words(alphabet, n):
    if n == 0:
        return [""]
    return [w + a for w in _words(alphabet, n - 1) for a in alphabet]


def _perms(xs):
    if len(xs) <= 1:
        return [list(xs)]
    return [[x] + p for i, x in enumerate(xs) for p in _perms(xs[:i] + xs[i + 1:])]


EXT_KW = {"h": "r:hit", "m": "r:miss", "g": "r:hit2", "u": "nowhere:hit"}
OC_KW = {"n": "oc-ext:note", "p": "oc-ext:posix-pattern", "q": "m:own", "o": "oc-ext:other"}
HIST_OPS = "PGEeCMXN"


def history_cases(tb, rnd, accepted):
    """the tree is built once; what happens to the module set afterwards must leave it the mirror it was.
    accepted: forests of the first phase that the model builds"""
    cases = []
    hist = dict(hist_ext_patterns=0, hist_posix_pattern=0, hist_sibling_order=0, hist_identity_order=0,
                hist_from_sweep=0)
    paths = tb.paths()
    # (1) extension lists: every struct of the table carrying every short word over {matching, not matching}
    # extension statements (the module's own prefix r resolves everywhere), asked for each (module, identifier)
    # its statements resolve to -- before / after Process, through the node and through its entry
    short = [w for n in range(0, 4) for w in _words("hm", n)]
    longer = [w for n in (4, 5) for w in _words("hmg", n)]
    k = 0
    for (ty, kw), chain in sorted(paths.items()):
        if not any(f["kind"] == "FExt" for f in tb.structs[ty]):
            continue
        if kw == "belongs-to":
            chain = ["submodule", "belongs-to"]      # (the table reaches it through module first, where it is refused)
        req = tb.required_keys(ty, kw)
        base = [tb.minimal(x, "r") for x in req]
        kids = [f["key"] for f in tb.children(ty) if f["key"] not in req and not f["reqkinds"]]
        words = short + rnd.sample(longer, 3) + ["mhu", "umh", "mu"]
        for w in words:
            exts = [(EXT_KW[c], "%s%d" % (c, i), []) for i, c in enumerate(w)]
            subs = base + exts
            if k % 4 == 1 and kids and exts:
                # ordinary substatements between the extensions
                mid = tb.minimal(kids[k % len(kids)], "k")
                subs = exts[:1] + base + [mid] + exts[1:]
            elif k % 4 == 2:
                subs = exts + base
            ops = ["M", "M", "PM", "MP", "NM", "eM", "X", "MCM"][k % 8]
            cases.append(hist_case_line(ops, [tb.wrap(chain, (kw, "n", subs))]))
            k += 1
            hist["hist_ext_patterns"] += 1
    # (2) the implicit caller: Process resolves every type and collects its openconfig-extensions:posix-pattern
    ns, pf = tb.minimal("namespace", "r"), ("prefix", "m", [])
    oc = ("module", "openconfig-extensions", [ns, ("prefix", "oc-ext", []),
          ("extension", "posix-pattern", [("argument", "pattern", [])]),
          ("extension", "note", [("argument", "text", [])]), ("extension", "other", [])])
    imp = ("import", "openconfig-extensions", [("prefix", "oc-ext", [])])
    own = ("extension", "own", [])
    words = [w for n in range(0, 4) for w in _words("np", n)] + rnd.sample(_words("npq", 4), 12) + \
        rnd.sample(_words("npqo", 5), 8)
    carriers = ["leaf", "leaf-list", "typedef", "union", "container"]
    k = 0
    for w in words:
        for car in carriers:
            exts = [(OC_KW[c], "^%s%d+$" % (c, i), []) for i, c in enumerate(w)]
            ty = ("type", "string", exts[:1] + [("pattern", "a+", [])] + exts[1:] if k % 3 == 0 else exts)
            if car == "leaf":
                body = [("leaf", "l", [ty] + exts)]
            elif car == "leaf-list":
                body = [("leaf-list", "l", exts + [ty])]
            elif car == "typedef":
                body = [("typedef", "t", [ty]), ("leaf", "l", [("type", "t", exts)])]
            elif car == "union":
                body = [("leaf", "l", [("type", "union", exts + [ty, ("type", "int8", exts)])])]
            else:
                body = [("container", "c", exts + [("leaf", "l", [ty]), ("list", "k", exts + [("key", "l", []),
                        ("leaf", "l", [ty])])])]
            m = ("module", "m", [ns, pf, imp, own] + body)
            forest = [oc, m] if k % 2 == 0 else [m, oc]
            ops = ["P", "P", "G", "PP", "PCP", "E", "PM", "MP", "PX"][k % 9]
            cases.append(hist_case_line(ops, forest))
            k += 1
            hist["hist_posix_pattern"] += 1
    # (3) source order among same-keyword siblings whose NAMES are not in ascending order: every (struct,
    # repeated field) of the table, then converted / processed / looked up
    k = 0
    for (ty, kw), chain in sorted(paths.items()):
        req = tb.required_keys(ty, kw)
        for f in tb.children(ty):
            if f["kind"] != "FMulti":
                continue
            c = f["key"]
            base = [tb.minimal(x, "r") for x in req if x != c]
            for pat in (["c", "b", "a"], ["b", "c", "a", "a"]):
                subs = [tb.minimal(c, nm) for nm in pat]
                ops = ["P", "E", "G", "e", "PG", "EE", "eP", "ECE"][k % 8]
                cases.append(hist_case_line(ops, [tb.wrap(chain, (kw, "n", base + subs))]))
                k += 1
                hist["hist_sibling_order"] += 1
    # (4) identities (the only statements besides typedefs that the conversion files by name): 0..4 of them in
    # every order, with and without bases, equal names, in modules and submodules, identityref users
    names = ["transport", "tcp", "udp", "sctp"]
    orders = [[]] + [p for n in (1, 2, 3) for p in _perms(names[:n])] + rnd.sample(_perms(names), 10) + \
        [["b", "a", "b"], ["b", "b", "a"], ["z", "y", "x", "w", "v"]]
    k = 0
    for order in orders:
        for top in ("module", "submodule"):
            reqs = [tb.minimal(x, "r") for x in tb.required_keys(tb.struct_for(top), top)]
            for based in (False, True):
                ids = []
                for nm in order:
                    b = [("base", order[0] if k % 2 else "r:" + order[0], [])] if based and nm != order[0] else []
                    ids.append(("identity", nm, b))
                user = [("leaf", "proto", [("type", "identityref", [("base", order[0], [])])])] if order and based else []
                body = ids + user if k % 3 else user + ids[:1] + [("typedef", "zz", [("type", "string", [])])] + ids[1:]
                ops = ["P", "E", "G" if top == "module" else "E", "PP", "ECE", "e", "PCG", "N"][k % 8]
                cases.append(hist_case_line(ops, [(top, "m", reqs + body)]))
                k += 1
                hist["hist_identity_order"] += 1
    # (5) anything else the first phase built: a random history over a sample
    sample = rnd.sample(accepted, min(400, len(accepted)))
    for f in sample:
        ops = "".join(rnd.choice(HIST_OPS) for _ in range(rnd.choice([1, 2, 2, 3, 4])))
        cases.append(hist_case_line(ops, f))
        hist["hist_from_sweep"] += 1
    return cases, hist


def bare_extensions(tb):
    """a module that defines `extension NAME;` does not make NAME a keyword: the bare (unprefixed) NAME is an
    unknown keyword wherever the table does not know it -- whether the definition stands before or after the
    use, in the same or another module; only the prefixed form goes to the extension list"""
    cases = []
    hist = dict(bare_extension=0)
    paths = tb.paths()

    def with_top(forest, where, item):
        top = forest[0]
        subs = ([item] + top[2]) if where == "first" else (top[2] + [item])
        return [(top[0], top[1], subs)] + forest[1:]

    for (ty, kw), chain in sorted(paths.items()):
        req = tb.required_keys(ty, kw)
        base = [tb.minimal(k, "r") for k in req]
        childkeys = {f["key"] for f in tb.children(ty)}
        kwname = next(k for k in ("config", "enum", "input", "bit") if k not in childkeys)
        for name in ("myext", kwname):
            defn = ("extension", name, [])
            defn_arg = ("extension", name, [("argument", "a", [("yin-element", "true", [])]), ("description", "d", [])])
            uses = [(name, "u", []), (name, None, []), (name, "u", [("description", "d", [])])]
            for u in uses:
                inner = [tb.wrap(chain, (kw, "n", base + [u]))]
                cases.append(case_line(with_top(inner, "first", defn)))          # defined before the use
                cases.append(case_line(with_top(inner, "last", defn)))           # defined after the use
                hist["bare_extension"] += 2
            u = uses[0]
            inner = [tb.wrap(chain, (kw, "n", [u] + base))]
            cases.append(case_line(with_top(inner, "first", defn_arg)))
            # two definitions, use between them; definition and prefixed use (fine); prefixed and bare together
            cases.append(case_line(with_top(with_top(inner, "first", defn), "last", ("extension", "other", []))))
            pre = [tb.wrap(chain, (kw, "n", base + [("p:" + name, "u", [])]))]
            cases.append(case_line(with_top(pre, "first", defn)))
            both = [tb.wrap(chain, (kw, "n", base + [("p:" + name, "u", []), (name, "u", [])]))]
            cases.append(case_line(with_top(both, "first", defn)))
            # defined in another module of the same text (before / after)
            other = ("module", "defs", [tb.minimal("namespace", "r"), tb.minimal("prefix", "r"), defn])
            inner = [tb.wrap(chain, (kw, "n", base + [u]))]
            cases.append(case_line([other] + inner))
            cases.append(case_line(inner + [other]))
            hist["bare_extension"] += 6
    # the definition itself used bare inside an extension statement, and nested deep under Value statements
    ns, pf = tb.minimal("namespace", "r"), tb.minimal("prefix", "r")
    d = ("extension", "myext", [])
    deep = ("description", "d", [("description", "e", [("myext", "x", [])])])
    for top in ("module", "submodule"):
        reqs = [tb.minimal(k, "r") for k in tb.required_keys(tb.struct_for(top), top)]
        cases.append(case_line([(top, "m", reqs + [d, ("extension", "second", [("myext", "x", [])])])]))
        cases.append(case_line([(top, "m", reqs + [d, ("leaf", "l", [("type", "string", []), deep])])]))
        cases.append(case_line([(top, "m", reqs + [d, ("leaf", "l", [("type", "string", []), ("default", "v", [("myext", "x", [])])])])]))
        cases.append(case_line([(top, "m", [d] + reqs + [("myext", "x", [])])]))
        cases.append(case_line([(top, "m", [d] + reqs + [("p:myext", "x", [])])]))
        hist["bare_extension"] += 5
    return cases, hist


NAME_PATTERNS = [["a", "a", "b"], ["a", "b", "a"], ["a", "a"], ["a", "b", "b", "c"], ["a", "a", "a", "b", "c"],
                 ["a", "b", "a", "c", "b", "d"]]


def repeated_names(tb):
    """same-keyword siblings that also carry the SAME argument (two typedefs / leaves / groupings of one name):
    the builder knows nothing about names, each statement still gets its own node, in source order"""
    cases = []
    hist = dict(repeated_names=0)
    paths = tb.paths()
    for (ty, kw), chain in sorted(paths.items()):
        req = tb.required_keys(ty, kw)
        for f in tb.children(ty):
            if f["kind"] != "FMulti":
                continue
            c = f["key"]
            pats = NAME_PATTERNS if c in ("typedef", "grouping", "identity", "leaf", "extension") else NAME_PATTERNS[:2]
            for pat in pats:
                subs = [tb.minimal(c, nm) for nm in pat]
                base = [tb.minimal(k, "r") for k in req if k != c]
                cases.append(case_line([tb.wrap(chain, (kw, "n", base + subs))]))
                hist["repeated_names"] += 1
            if c == "typedef":
                # other statements between the equally named ones, and a second scope below with the same names
                other = [x["key"] for x in tb.children(ty) if x["kind"] == "FMulti" and x["key"] not in ("typedef",)]
                mix = [tb.minimal("typedef", "a")]
                if other:
                    mix.append(tb.minimal(other[0], "a"))
                mix += [tb.minimal("typedef", "a"), ("x:e", "a", []), tb.minimal("typedef", "b"),
                        tb.minimal("typedef", "b"), tb.minimal("typedef", "c")]
                base = [tb.minimal(k, "r") for k in req if k != c]
                cases.append(case_line([tb.wrap(chain, (kw, "n", base + mix))]))
                hist["repeated_names"] += 1
    return cases, hist


def random_tree(tb, rnd, kw, depth, budget, q):
    """q = noise: probability of a junk child / an omitted required child / a repeated single child"""
    ty = tb.struct_for(kw)
    arg = rnd.choice([None, "", "a", "b", "some text", "x1"])
    subs = []
    if ty is None or depth <= 0:
        if ty is not None:
            return tb.minimal(kw, arg if arg is not None else "d")
        if rnd.random() < 0.3:
            subs = [("any", "z", [])]
        return (kw, arg, subs)
    fields = tb.structs[ty]
    kids = [f["key"] for f in fields if f["kind"] in ("FSingle", "FMulti")]
    singles = [f["key"] for f in fields if f["kind"] == "FSingle"]
    has_ext = any(f["kind"] == "FExt" for f in fields)
    other = [f["key"] for f in fields if any(n != kw for n in f["reqkinds"])]
    want = [k for k in tb.required_keys(ty, kw) if rnd.random() >= q]
    n = rnd.choice([0, 1, 2, 3, 4, 6, 8])
    for _ in range(n):
        r = rnd.random()
        if getattr(tb, "bare", None) and rnd.random() < 0.04:
            want.append(rnd.choice([tb.bare, "p:" + tb.bare]))
            continue
        if r < q:
            want.append(rnd.choice(PSEUDO + ["bogus", "a:b:c", "module", "submodule"] + sorted(tb.names)))
        elif r < q + 0.15 and (has_ext or rnd.random() < q):
            want.append(rnd.choice(["e:x", "e:y", "pfx:thing", ":", "a:", ":b"]))
        elif kids:
            k = rnd.choice(kids)
            if (k in singles and k in want) or k in other:
                if rnd.random() >= q:
                    continue
            want.append(k)
    rnd.shuffle(want)
    for k in want:
        if budget[0] <= 0 and k not in tb.required_keys(ty, kw):
            continue
        budget[0] -= 1
        subs.append(random_tree(tb, rnd, k, depth - 1, budget, q))
    return (kw, arg, subs)


def randoms(tb, rnd, n):
    cases = []
    for i in range(n):
        forest = []
        ntop = rnd.choice([1, 1, 1, 1, 2, 3])
        q = rnd.choice([0.0, 0.0, 0.01, 0.03, 0.1, 0.3])
        for j in range(ntop):
            r = rnd.random()
            kw = "module" if r < 0.6 else "submodule" if r < 0.9 or q == 0.0 else \
                rnd.choice(sorted(tb.names) + ["bogus", "x:y"])
            tb.bare = "rx" if rnd.random() < 0.25 else None
            t = random_tree(tb, rnd, kw, rnd.choice([1, 2, 3, 4, 5]), [rnd.choice([6, 15, 40, 80])], q)
            subs = t[2]
            if tb.bare and tb.struct_for(kw) == tb.struct_for("module"):
                subs = [("extension", "rx", [])] + subs if rnd.random() < 0.7 else subs + [("extension", "rx", [])]
            tb.bare = None
            forest.append((t[0], "top%d" % j, subs))
        cases.append(case_line(forest))
    return cases


def canon1(o):
    """errors are compared by position only: "err L:C" / "err nopos" (the model adds the kind)"""
    if o.startswith("PANIC"):
        return "PANIC"
    if o.startswith("err"):
        return " ".join(o.split()[:2])
    return o


def canon(o):
    if " | " not in o:
        return canon1(o)
    steps = [canon1(x) for x in o.split(" | ")]
    if steps[0].startswith("ok"):
        # an accepted file: a further Read may report the duplicate or change nothing -- but if it
        # claims success the set must still show exactly what the first Read built
        later = ["same" if x in (steps[0], "err nopos", "same") else x for x in steps[1:3]]
        # ... and once the file has been rewritten into a faulty text it must be refused (where exactly
        # depends on the duplicate test, which is not modelled)
        last = [("err" if x.startswith("err") else x) for x in steps[3:]]
        steps = [steps[0]] + later + last
    return " | ".join(steps)


def gen(tier, seed):
    """first phase: statement trees through Modules.Parse; returns also the forest of every case"""
    tb = Table()
    rnd = random.Random(seed)
    del _FORESTS[:]
    cases, hist = sweep(tb)
    w, h2 = wide(tb)
    cases += w
    hist.update(h2)
    w, h2 = bare_extensions(tb)
    cases += w
    hist.update(h2)
    w, h2 = repeated_names(tb)
    cases += w
    hist.update(h2)
    nr = 3000 if tier == "quick" else 60000
    cases += randoms(tb, rnd, nr)
    hist["random_trees"] = nr
    forests = list(_FORESTS)
    assert len(forests) == len(cases)
    return tb, cases, hist, forests, rnd


def run(res, tier, seed, proof):
    tb, cases, hist, forests, rnd = gen(tier, seed)
    go, ml, mism = lib.diff_cases(res, cases, canon=canon)
    # second phase, the file leg (Modules.Read, repeatedly, on one set): which sampled texts get a corrected
    # version is decided by the model's verdict of the first phase
    verdicts = [(f, m.startswith("err")) for f, m in zip(forests, ml) if m.startswith(("err", "ok"))]
    fcases, h3 = file_cases(tb, rnd, verdicts)
    hist.update(h3)
    fgo, fml, fmism = lib.diff_cases(res, fcases, canon=canon, corr_name="model-vs-implementation (file leg)")
    for c, g in zip(fcases, fgo):
        if any(not (x.startswith("ok") or x.startswith("err ")) for x in g.split(" | ")):
            res.violation("implementation neither built nor rejected (file leg): %s -> %s" % (c[:200], g[:200]),
                          dict(kind="correspondence", case=c, impl=g, model="(see replay)"))
            break
    mism += fmism
    # third phase, the history leg: the tree that was built stays the mirror whatever is done with the set later
    accepted = [f for f, rej in verdicts if not rej and size(f) <= 400]
    hcases, h4 = history_cases(tb, rnd, accepted)
    hist.update(h4)
    hgo, hml, hmism = lib.diff_cases(res, hcases, canon=canon, corr_name="model-vs-implementation (history leg)")
    mism += hmism
    hist["hist_built"] = sum(1 for g in hgo if g.startswith("ok"))
    ok = sum(1 for g in go if g.startswith("ok"))
    err = sum(1 for g in go if g.startswith("err"))
    kinds = {}
    deep = {}
    for c, m in zip(cases, ml):
        t = m.split()
        if len(t) == 3 and t[0] == "err":
            kinds[t[2]] = kinds.get(t[2], 0) + 1
            if t[1] != "nopos" and int(t[1].split(":")[1]) >= 5:      # column 5 = depth 2
                deep[t[2]] = deep.get(t[2], 0) + 1
    other = len(go) - ok - err
    # anything that is neither a dump nor a rejection on the implementation side is a crash of the builder
    for c, g in zip(cases, go):
        if not (g.startswith("ok") or g.startswith("err ")):
            res.violation("implementation neither built nor rejected: %s -> %s" % (c[:200], g[:200]),
                          dict(kind="correspondence", case=c, impl=g, model="(see replay)"))
            break
    nontrivial = len({c for c, g in zip(cases, go) if g.startswith("ok ") and g.count(":") >= 9} |
                     {c for c, g in zip(cases, go) if g.startswith("err")})
    mid = len(cases) // 2
    cov = dict(
        evaluations=len(cases) + len(fcases) + len(hcases),
        distinct_nontrivial=nontrivial + len(set(fcases)) + len(set(hcases)),
        rule="per-row sweep of the generated table (every struct reachable from module/submodule x every child "
             "field at multiplicity 1 and 2 in two positions; every required field omitted; pseudo keywords "
             "Name/Statement/Parent/Ext, unknown, prefixed and multi-colon keywords, with and without argument; "
             "every keyword at top level alone, before and after a module) plus random trees over the table's "
             "keywords; non-trivial = rejected, or built with at least three nodes.  On rejection the line:col "
             "prefix of the Go error (or its absence) is compared with the position of the statement the model "
             "reports (C16, third sentence, for builder errors).  Wide statements: 31..100 substatements of one "
             "repeated keyword for every (struct, repeated field) of the table, interleaved mixes.  Bare extension "
             "names: for every struct, a module defining `extension NAME` (before / after the use, in another "
             "module, NAME also a YANG keyword of another context) and NAME used unprefixed -> unknown field, "
             "prefixed -> extension list.  Repeated names: equally named siblings of every repeated keyword "
             "(typedef a; typedef a; typedef b; ... in every typedef-holding scope) keep one node each.  File leg: "
             "faulty and good texts written to a file and read with Modules.Read twice, then by module name "
             "through the search path, then once more after the file was corrected (or broken) on disk -- a "
             "rejected source must be rejected every time at the same position, a Read without error must show "
             "the mirrored module in the set.  History leg: after Parse the set is processed / converted / queried "
             "(Process, GetModule, ToEntry on modules and on every node, ClearEntryCache, MatchingExtensions and "
             "MatchingEntryExtensions for every (module, identifier) a node's extensions resolve to, the read-only "
             "node helpers) and the tree is dumped after every step: it must stay the dump of the model's tree.  "
             "Families: every struct x every word of length 0..3 (sampled 4..5) over matching / non-matching "
             "extension statements; types with openconfig-extensions notes and posix-patterns under leaf, "
             "leaf-list, typedef, union and container/list, processed; every (struct, repeated field) with sibling "
             "names in descending order; 0..4 identities in every order (with bases, equal names, submodules); "
             "random histories over a sample of the built trees of the first phase",
        exhaustive=False, mismatches=mism,
        distribution=dict(hist, built=ok, rejected=err, other=other, error_kinds=kinds,
                          error_kinds_reported_at_depth_2_or_more=deep,
                          structs=len(tb.structs), keywords=len(tb.names)),
        samples=[cases[7][:400], cases[mid][:400], cases[-5][:400], fcases[3][:400], hcases[5][:400]],
        sample_observations=[go[7][:400], go[mid][:400], go[-5][:400], fgo[3][:400], hgo[5][:400]],
    )
    assumptions = ["the text handed to Modules.Parse and the tree handed to the model are renderings of the same "
                   "generated tree (one statement per line, arguments double-quoted without escapes)",
                   "top-level statements of one text carry distinct names (Modules.add's duplicate test is not modelled)",
                   "typedef dictionary side effect of build is not observed (C18)",
                   "file leg: findFile resolves dir/c03case.yang and the module name c03case to the file just written "
                   "(nothing named c03case*.yang in the harness' working directory)",
                   "history leg: in the model the tree is an immutable value and the later operations are functions of "
                   "it, so 'still the mirror after the history' is the model's build result compared with the "
                   "implementation's tree after every step; which operations exist that could write to the tree is "
                   "outside the model -- the leg covers Process, GetModule, ToEntry, ClearEntryCache, "
                   "MatchingExtensions, MatchingEntryExtensions and the read-only helpers of node.go/find.go, on "
                   "module sets parsed from one text; panics and errors of those operations are ignored here "
                   "(other properties), only the tree is observed"]
    return cov, assumptions


def replay(rep, res):
    c = rep["case"]
    go = lib.run_go([c])[0]
    ml = lib.run_ml([c])[0]
    toks = c.split()
    if toks[0] == "asthist":
        print("operations after Parse:", toks[1])
        toks = toks[1:]
    if len(toks) > 1 and toks[1] != "-":
        print("text :")
        print(bytes.fromhex(toks[1]).decode(errors="replace"))
    if toks[0] == "astfile" and toks[2] != "-":
        print("corrected text :")
        print(bytes.fromhex(toks[2]).decode(errors="replace"))
    print("impl :", go)
    print("model:", ml)
    return 0 if canon(go) == canon(ml) else 1
