"""C13 (a) module registry: add / FindModule lookups, (b) file chooser: findFile / findInDir,
(c) include = inline: a module split over submodules (nested includes) vs. the unsplit module, on the implementation
(metamorphic) and, for the typedef/identity-free subset, on the core resolver model (needs the `resolve` command:
VERIF_PARTS=c13,schema while developing).

Every case is run on the implementation (harness/go/c13.go) and on the extracted model
(harness/ml/cmd_c13.ml); the model's line carries, after " | ", what the proved specification
(coq/Spec/C13.v) says about the case.  Three comparisons:
  tie     implementation line == model line                      (any difference: violation)
  oracle  implementation observation == specification            (difference: violation; for the file chooser a
          known finding when the case has exactly the shape of the listed dir/... defect -- the Coq guard of the
          _partial theorem.  D30, registry.norev-vs-rev, is fixed: a recurrence is a violation)
  metamorphic (implementation only) final bindings of all permutations of a header set with pairwise
          distinct (kind, name, revision) are equal."""
import itertools
import random
import shutil
import tempfile

import lib

D1, D2, D3 = "2019-12-31", "2020-01-01", "2021-06-15"


def hx(s):
    if isinstance(s, str):
        s = s.encode("latin-1")
    return lib.hexs(s)


# ------------------------------------------------------------------------------ registry

def add_op(kind, name, revs):
    return "a:%s:%s:%s" % (kind, hx(name), ",".join(hx(r) if r else "_" for r in revs) if revs else "-")


def text_op(hdrs):
    return "t:" + "+".join("%s;%s;%s" % (k, hx(n), ",".join(hx(r) if r else "_" for r in revs) if revs else "-")
                           for k, n, revs in hdrs)


def find_op(kind, name, rev):
    return "f:%s:%s:%s" % (kind, hx(name), "n" if rev is None else ("r" + (hx(rev) if rev else "_")))


def rev_lists(dates):
    out = []
    for k in range(len(dates) + 1):
        for sub in itertools.combinations(dates, k):
            out += [list(p) for p in itertools.permutations(sub)]
    return out


def finds_for(names):
    out = []
    for kind, name in names:
        for rev in (None, D1, D2, D3, ""):
            out.append(find_op(kind, name, rev))
    return out


def gen_registry(tier, rnd):
    cases = []
    rich = [("m", "m", r) for r in rev_lists([D1, D2, D3])] + \
           [("s", "m", [D2]), ("s", "m", []), ("m", "mm", [D2]), ("m", "mm", [])]
    small = [("m", "m", []), ("m", "m", [D2]), ("m", "m", [D1, D3]), ("m", "m", [D3, D1]),
             ("m", "m", [D1]), ("s", "m", [D2]), ("m", "mm", [])]
    tail = finds_for([("m", "m"), ("s", "m"), ("m", "mm")])
    for n in range(0, 4):
        for seq in itertools.product(rich, repeat=n):
            cases.append(" ".join(["registry"] + [add_op(*h) for h in seq] + tail))
    for seq in itertools.product(small, repeat=4):
        cases.append(" ".join(["registry"] + [add_op(*h) for h in seq] + tail))
    if tier != "quick":
        for seq in itertools.product(small, repeat=5):
            cases.append(" ".join(["registry"] + [add_op(*h) for h in seq] + tail))
    # texts holding several modules (Parse is all or nothing): every pair of texts of 1..2 headers over 4 headers, then
    # random histories mixing single-module and 1..3-module texts (duplicate pairs inside one text, duplicates of loaded
    # ones, a good module before / after the offending one)
    tpool = [("m", "m", []), ("m", "m", [D2]), ("s", "m", [D2]), ("m", "mm", [D2])]
    texts = [[h] for h in tpool] + [[a, b] for a in tpool for b in tpool]
    for t1 in texts:
        for t2 in texts:
            cases.append(" ".join(["registry", text_op(t1), text_op(t2)] + tail))
    for _ in range(700 if tier == "quick" else 20000):
        ops = []
        for _ in range(rnd.randint(2, 6)):
            if rnd.random() < 0.3:
                ops.append(add_op(*rnd.choice(small)))
            else:
                ops.append(text_op([rnd.choice(small) for _ in range(rnd.randint(1, 3))]))
            if rnd.random() < 0.3:
                ops.append(find_op(rnd.choice("ms"), rnd.choice(["m", "mm"]), rnd.choice([None, D1, D2, D3])))
        cases.append(" ".join(["registry"] + ops + tail))
    # random longer histories, finds interleaved, odd names and revisions
    names = ["m", "mm", "m-x", "a.b", "M", "m@" + D2, "m@"]
    revs = [D1, D2, D3, "", "2020-1-01", "zzz", D2 + "x", "2020", "@", "2020-01-01@1"]
    for _ in range(700 if tier == "quick" else 30000):
        odd = rnd.random() < 0.25
        ops = []
        for _ in range(rnd.randint(5, 12)):
            name = rnd.choice(names if odd else names[:4])
            kind = rnd.choice("mms")
            if rnd.random() < 0.7:
                k = rnd.choice([0, 0, 1, 1, 1, 2, 3])
                ops.append(add_op(kind, name, [rnd.choice(revs if odd else revs[:3]) for _ in range(k)]))
            else:
                ops.append(find_op(kind, name, rnd.choice([None, None] + revs[:5])))
        cases.append(" ".join(["registry"] + ops))
    return cases


def fields(line):
    d = {}
    for t in line.split():
        if "=" in t:
            k, v = t.split("=", 1)
            d[k] = v
    return d


def lst(v, sep=None):
    if v == "-":
        return []
    return list(v) if sep is None else v.split(sep)


def py_key(op):
    _, kind, name, revs = op.split(":")
    rs = [] if revs == "-" else [b"" if r == "_" else bytes.fromhex(r) for r in revs.split(",")]
    return kind, name, max(rs, default=b"")


# ---------------------------------------------------------------------------- file chooser

def tree_tok(entries):
    """entries: list of (name, None) for a file, (name, "link") for a symbolic link to a file, (name, [children]) for a directory"""
    return "(" + ",".join(("F" + hx(n)) if c is None else (("L" + hx(n)) if c == "link" else ("D" + hx(n) + tree_tok(c)))
                          for n, c in entries) + ")"


def comps_tok(comps):
    return "/".join(hx(c) for c in comps) if comps else "."


class Rel:
    """a search-path element spelled relative to the current directory (".", "./", "sub", "../p0" ...); [comps] = the
    root-relative components of the directory it denotes (what the model is given)"""

    def __init__(self, spelling, comps):
        self.spelling, self.comps = spelling, comps


def rel_to(cwd, spelling):
    comps = list(cwd)
    for c in spelling.split("/"):
        if c in ("", "."):
            continue
        if c == "..":
            comps = comps[:-1]
        else:
            comps.append(c)
    return Rel(spelling, comps)


def elem_tok(c, dots):
    if isinstance(c, Rel):
        return "r%s:%s%s" % (hx(c.spelling), comps_tok(c.comps), "+" if dots else "")
    return comps_tok(c) + ("+" if dots else "")


def path_tok(path):
    toks = []
    for c, dots in path:
        t = elem_tok(c, dots)
        if t not in toks:                 # AddPath keeps one element per spelling
            toks.append(t)
    return ";".join(toks) if toks else "-"


def ff_case(tree, cwd, path, name):
    return "findfile %s %s %s %s" % (tree_tok(tree), comps_tok(cwd), path_tok(path), hx(name))


def rs_case(tree, cwd, path, names):
    return "readseq %s %s %s %s" % (tree_tok(tree), comps_tok(cwd), path_tok(path), ",".join(hx(n) for n in names))


HERE = [".", "./", "./.", "../cwd", ".//"]          # spellings of the current directory (cwd = <root>/cwd)


def gen_here(tier, rnd):
    """the current directory as an element of the search path -- spelled ".", "./", "./.", "../cwd", absolute, with
    and without "/..." -- put there beforehand or by an earlier Read of a file of the working directory; lookups by
    file name (foo.yang) and by module name (foo); 0, 1, 2 dated candidates and/or the exact file in the current
    directory, a later directory that has candidates too; histories of one to three Reads on one Modules"""
    cwd = ["cwd"]
    cases = []
    cwd_sets = [[], ["foo@2019-12-31.yang"], ["foo@2019-12-31.yang", "foo@2021-06-15.yang"], ["foo.yang"],
                ["foo.yang", "foo@2021-06-15.yang"], ["foobar@2022-01-01.yang"], ["foo@2020-1-01.yang", "foo@2020-01-01.yang"],
                ["foo@2020-01-01.yang", "foobar.yang", "fo@2025-01-01.yang"]]
    later_sets = [[], ["foo.yang"], ["foo@2023-01-01.yang"]]
    lookups = ["foo.yang", "foo", "foobar.yang", "foo@2020-01-01.yang", "foo@2020-01-01"]
    firsts = (["a.yang"], ["a"], ["b"], ["c.yang"], ["zz.yang"], ["a.yang", "a"], [])
    li = 0
    for cs in cwd_sets:
        for ls in later_sets:
            li += 1
            full = tier != "quick"
            sub = [("sub", [("foo@2001-01-01.yang", None)])] if len(cs) % 2 else []
            tree = [("cwd", [(n, None) for n in cs] + [("a.yang", None), ("b@2018-01-01.yang", None)] + sub),
                    ("p0", [(n, None) for n in ls]), ("p1", [("c.yang", None), ("foo@2000-01-01.yang", None)])]
            # (1) the current directory named on the path: every spelling, before / after / between the other directories
            # (quick tier: ".", one other spelling and one of absolute / absent per layout, rotating)
            for sp in (HERE + [None, "abs"]) if full else [".", HERE[1 + li % 4], (None, "abs")[li % 2]]:
                here = [] if sp is None else [((cwd if sp == "abs" else rel_to(cwd, sp)), False)]
                for path in (here + [(["p0"], False)], [(["p0"], False)] + here, here, [(["p1"], False)] + here + [(["p0"], False)]):
                    for name in lookups if full else ["foo.yang", lookups[1 + li % 4]]:
                        cases.append(ff_case(tree, cwd, path, name))
                if sp not in (None, "abs") and (full or sp != "."):
                    cases.append(ff_case(tree, cwd, [(rel_to(cwd, sp), True), (["p0"], False)], "foo.yang"))
                    cases.append(ff_case(tree, cwd, [(rel_to(cwd, "sub"), False), (rel_to(cwd, sp), False)], "foo.yang"))
            # (2) put there by an earlier Read: by file name / module name from the current directory, through the path
            # (adds nothing), a failing one, the same file again
            paths = ([], [(["p0"], False)], [(["p1"], False), (["p0"], False)], [(rel_to(cwd, "."), False), (["p0"], False)],
                     [(["p0"], False), (rel_to(cwd, "./"), False)])
            for fi, first in enumerate(firsts):
                if not full and (fi + li) % 2:
                    continue
                for pi, path in enumerate(paths):
                    if not full and (pi + fi + li) % 2:
                        continue
                    cases.append(rs_case(tree, cwd, path, first + ["foo.yang"]))
                    cases.append(rs_case(tree, cwd, path, first + ["foobar.yang", "foo.yang", "foo"] if (pi + li) % 2 else first + ["foo"]))
    # random: layouts over the core names, 1..4 Reads
    names = ["foo.yang", "foo.yang", "foo", "foobar.yang", "foobar", "a.yang", "a", "fo.yang", "foo@2020-01-01.yang", "zz"]
    for _ in range(300 if tier == "quick" else 20000):
        pool = CORE + ["a.yang", "a@2017-01-01.yang", "fo@2025-01-01.yang"]
        tree = [("cwd", rand_dir(rnd, 1, pool))]
        for i in range(rnd.randint(1, 2)):
            tree.append(("p%d" % i, rand_dir(rnd, rnd.choice([0, 1]), pool)))
        path = []
        for _ in range(rnd.randint(0, 3)):
            r = rnd.random()
            if r < 0.45:
                path.append((rel_to(cwd, rnd.choice(HERE + ["sub", "./sub", "../p0", "../p1"])), rnd.random() < 0.2))
            else:
                path.append(([rnd.choice(["p0", "p1", "cwd", "nonexist"])], rnd.random() < 0.3))
        cases.append(rs_case(tree, cwd, path, [rnd.choice(names) for _ in range(rnd.randint(1, 4))]))
    return cases


CORE = ["foo.yang", "foo@2020-01-01.yang", "foo@2019-12-31.yang", "foo@2021-06-15.yang",
        "foobar@2022-01-01.yang", "foo@2020-1-01.yang", "foo@2023-01-01.yang.bak", "foobar.yang"]
NEAR = CORE + ["foo.yang.bak", "fo.yang", "fo@2025-01-01.yang", "foo@2020-01-01.yan", "foo@20200101.yang",
               "foo@2020-01-0a.yang", "foo@@2020-01-01.yang", "foo@2020-01-01@2021-01-01.yang", "Foo.yang",
               "foo@2020-01-01.yang\n", "foo@\xd9\xa2020-01-01.yang", "foo@2030-01-01.yangx", "foo", "foo@",
               "xfoo.yang", "xfoo@2031-01-01.yang", "foo@2020-01-01", "foo@2020_01_01.yang", "foo@9999-99-99.yang",
               "foo@0000-00-00.yang", "foo-2032-01-01.yang", "foo@2020-01-01.yang.yang"]
DIRNAMES = ["a", "z", "foo", "g", "foo!", "foo-x", "foo0", "sub", "foo.yang", "foo@2024-01-01.yang"]


IDENT_NAMES = ["acme.types", "a.b", "a-b", "a_b", "x1.y2-z", "a..b", "a.b.c", "ietf-if.v2", "_a.b", "a-z.0-9", "m."]


def lookalikes(name):
    """names that a pattern built from [name] without quoting would also accept, and plain near misses"""
    out = []
    for ch in "X-_0a":
        out.append(name.replace(".", ch))
    for i, c in enumerate(name):
        if c in ".-_":
            for ch in "Xz_-.":
                if ch != c:
                    out.append(name[:i] + ch + name[i + 1:])
    out += [name + "x", "x" + name, name[:-1], name.upper()]
    seen, res = set(), []
    for o in out:
        if o and o != name and o not in seen and "/" not in o:
            seen.add(o)
            res.append(o)
    return res


def rand_dir(rnd, depth, pool):
    ents, used = [], set()
    for _ in range(rnd.choice([0, 1, 1, 2, 3, 4])):
        n = rnd.choice(pool)
        if n not in used:
            used.add(n)
            ents.append((n, "link" if rnd.random() < 0.2 else None))
    if depth > 0:
        for _ in range(rnd.choice([0, 0, 1, 1, 2, 3])):
            n = rnd.choice(DIRNAMES)
            if n not in used:
                used.add(n)
                ents.append((n, rand_dir(rnd, depth - 1, pool)))
    rnd.shuffle(ents)
    return ents


def gen_findfile(tier, rnd):
    cases = []
    # one directory, every subset of the core names, as ".", as a plain path element, as "dir/..."
    for mask in range(1 << len(CORE)):
        d = [(n, None) for i, n in enumerate(CORE) if mask >> i & 1]
        if mask % 3 == 0:
            d = d + [("foo.yang" if not mask & 1 else "zz", [("foo@2029-01-01.yang", None)])]
        other = [("foo@2000-01-01.yang", None)]
        cases.append(ff_case([("cwd", d), ("p0", other)], ["cwd"], [(["p0"], False)], "foo"))
        cases.append(ff_case([("cwd", []), ("p0", d), ("p1", other)], ["cwd"], [(["p0"], False), (["p1"], False)], "foo"))
        cases.append(ff_case([("cwd", []), ("p0", d), ("p1", other)], ["cwd"], [(["p0"], True), (["p1"], True)], "foo"))
        # the same with the candidates linked in from a shared store (symbolic links), all of them / every other one
        for every in (1, 2):
            dl = [(n, "link" if (c is None and i % every == 0) else c) for i, (n, c) in enumerate(d)]
            cases.append(ff_case([("cwd", dl), ("p0", other)], ["cwd"], [(["p0"], False)], "foo"))
            cases.append(ff_case([("cwd", []), ("p0", dl), ("p1", other)], ["cwd"], [(["p0"], every == 2), (["p1"], False)], "foo"))
    # every single near-miss name next to / instead of a real candidate
    for n in NEAR + DIRNAMES:
        for extra in ([], ["foo@2010-01-01.yang"]):
            for as_dir in (False, True):
                d = [(n, [("foo.yang", None)] if as_dir else None)] + [(e, None) for e in extra if e != n]
                for dots in (False, True):
                    cases.append(ff_case([("cwd", []), ("p0", d)], ["cwd"], [(["p0"], dots)], "foo"))
                cases.append(ff_case([("cwd", d)], ["cwd"], [], "foo"))
    # module names with the other characters legal in a YANG identifier ('.', '-', '_', digits): '.' is a wildcard and
    # '-' a range operator for anyone who builds a pattern from the name; look-alike files in which each such character
    # is replaced, in the same directory and in an earlier one, with and without the exact file and a real dated file
    for name in IDENT_NAMES:
        alikes = lookalikes(name)
        real = name + "@2018-03-04.yang"
        for la in alikes:
            dated = la + "@2022-05-06.yang"
            for exact in (False, True):
                for with_real in (False, True):
                    d = [(dated, None)] + ([(name + ".yang", None)] if exact else []) + ([(real, None)] if with_real else [])
                    later = [(name + "@2001-01-01.yang", None)]
                    for dots in (False, True):
                        cases.append(ff_case([("cwd", []), ("p0", d)], ["cwd"], [(["p0"], dots)], name))
                        cases.append(ff_case([("cwd", []), ("p0", [(dated, None), (la + ".yang", None)]), ("p1", later)], ["cwd"],
                                             [(["p0"], dots), (["p1"], False)], name))
                    cases.append(ff_case([("cwd", d), ("p0", later)], ["cwd"], [(["p0"], False)], name))
        # all look-alikes at once, nested, random order
        for _ in range(3):
            d = [(la + "@20%02d-01-01.yang" % (10 + i), None) for i, la in enumerate(alikes)]
            rnd.shuffle(d)
            sub = [("sub", d[: len(d) // 2])]
            cases.append(ff_case([("cwd", []), ("p0", d[len(d) // 2:] + sub), ("p1", [(real, None)])], ["cwd"],
                                 [(["p0"], rnd.random() < 0.5), (["p1"], False)], name))
    # two-step lookups on one Modules: the file is not there at the first FindModule and appears before the second
    for later in (["foo.yang"], ["foo@2020-01-01.yang"], ["foo@2019-12-31.yang", "foo@2021-06-15.yang"], ["foobar.yang"]):
        for where in ("cwd", "p0", "p1", "sub"):
            for first in ([], ["foobar.yang"], ["foo@2020-1-01.yang"], ["foo.yang"]):
                for dots in (False, True):
                    a = [("cwd", []), ("p0", [(n, None) for n in first] + [("s", [])]), ("p1", [])]
                    tgt = [(n, None) for n in later]
                    b = [("p0", [("s", tgt)])] if where == "sub" else [(where, tgt)]
                    cases.append("findtwice %s %s %s %s %s" % (tree_tok(a), tree_tok(b), comps_tok(["cwd"]),
                                                               ";".join(comps_tok(c) + ("+" if d else "") for c, d in
                                                                        [(["p0"], dots), (["p1"], False)]), hx("foo")))
    # random nested layouts
    lookups = ["foo"] * 12 + ["foobar", "fo", "foo@2020-01-01", "foo.yang", "foo@2020-01-01.yang", "zz"]
    for _ in range(2000 if tier == "quick" else 60000):
        pool = CORE if rnd.random() < 0.5 else NEAR
        tree = [("cwd", rand_dir(rnd, 1, pool) if rnd.random() < 0.3 else [])]
        for i in range(rnd.randint(1, 3)):
            tree.append(("p%d" % i, rand_dir(rnd, rnd.choice([0, 1, 2, 3]), pool)))
        path = []
        for _ in range(rnd.randint(0, 4)):
            base = [rnd.choice(["p0", "p1", "p2", "nonexist", "cwd"])]
            r = rnd.random()
            if r < 0.15:
                base.append(rnd.choice(DIRNAMES))
            elif r < 0.2:
                base = []
            path.append((base, rnd.random() < 0.5))
        cwd = ["cwd"] if rnd.random() < 0.85 else ["p0"]
        cases.append(ff_case(tree, cwd, path, rnd.choice(lookups)))
    return cases


# ------------------------------------------------------------------- (c) include = inline
# A module is generated as ONE list of top-level statements, then split over 1..3 submodules with nested
# includes.  Statements are schema_gen node tuples plus ('typedef', name, typetext) and ('identity', name, [bases]);
# leaf types may be typedef names or 'identityref { base p:iN; }'.  Oracle: the implementation alone, run on the
# split set and on the unsplit module, must give the same verdict, the same module tree, the same identity value
# lists and the same resolved leaf types.  For the typedef/identity-free subset the core model (resolve) is run on
# both abstract schemas as well.
import json
import re

from props import schema_gen as sg

PFX, MOD, NS = "p", "m", "urn:m"


def _refs_of(node):
    """(kind, name) of the top-level definitions a statement refers to: groupings used, typedefs and identity bases"""
    out = set()

    def ty(t):
        m = re.match(r"identityref \{ base (?:p:)?(\w+); \}", t)
        if m:
            out.add(("identity", m.group(1)))
        elif t not in sg.BUILTINS:
            out.add(("typedef", t.split(":")[-1].split(" ")[0]))

    def walk(n):
        k = n[0]
        if k == "typedef":
            if n[2].split(" ")[0] not in sg.BUILTINS:
                out.add(("typedef", n[2].split(":")[-1].split(" ")[0]))
        elif k == "identity":
            for b in n[2]:
                out.add(("identity", b.split(":")[-1]))
        elif k in ("leaf", "leaflist"):
            ty(n[2])
        elif k == "uses":
            out.add(("grouping", n[1].split(":")[-1]))
        elif k == "rpc":
            for b in (n[3], n[4]):
                for c in b or []:
                    walk(c)
        elif k == "any":
            pass
        else:
            for c in n[-1]:
                walk(c)
    walk(node)
    return out


def _retype(rnd, body, types):
    """replace some builtin leaf types by references to typedefs / identities"""
    out = []
    for n in body:
        k = n[0]
        if k == "leaf" and types and rnd.random() < 0.5:
            out.append((k, n[1], rnd.choice(types), n[3], n[4], None, n[6]))
        elif k == "leaflist" and types and rnd.random() < 0.4:
            out.append((k, n[1], rnd.choice(types), n[3], [], n[5], n[6]))
        elif k in ("container", "case", "notification", "grouping", "list", "choice"):
            out.append(n[:-1] + (_retype(rnd, n[-1], types),))
        elif k == "rpc":
            out.append(n[:3] + (None if n[3] is None else _retype(rnd, n[3], types), None if n[4] is None else _retype(rnd, n[4], types)))
        else:
            out.append(n)
    return out


def gen_family(rnd, rich):
    """-> (items, augments): items = top-level statements in written order, augments = [(path, body)]"""
    g = sg.Gen(rnd, n_modules=1)
    items, types, idents, groupings = [], [], [], []
    if rich:
        for i in range(rnd.randint(0, 3)):
            base = rnd.choice(["string", "int32 { range \"1..10\"; }", "uint8", "boolean"] +
                              [rnd.choice([t, PFX + ":" + t]) for t in types if " " not in t and ":" not in t])
            items.append(("typedef", "t%d" % i, base))
            types.append("t%d" % i)
        for i in range(rnd.randint(0, 4)):
            bases = [rnd.choice([b, PFX + ":" + b]) for b in rnd.sample(idents, min(len(idents), rnd.choice([0, 1, 1, 2])))]
            items.append(("identity", "i%d" % i, bases))
            idents.append("i%d" % i)
    tyrefs = [rnd.choice([t, PFX + ":" + t]) for t in types] + ["identityref { base %s:%s; }" % (PFX, i) for i in idents]
    for k in range(rnd.randint(0, 3)):
        g.gid += 1
        usable = [rnd.choice([x, PFX + ":" + x]) for x in groupings]
        body = _retype(rnd, g.body(2, usable, allow_action=True), tyrefs)
        name = g.name("g")
        items.append(("grouping", g.gid, name, body))
        groupings.append(name)
    usable = [rnd.choice([x, PFX + ":" + x]) for x in groupings]
    for _ in range(rnd.randint(2, 5)):
        items += _retype(rnd, g.body(2, usable, allow_action=False, n=1), tyrefs)
    if rnd.random() < 0.3:
        items.append(("rpc", False, g.name("rpc"), _retype(rnd, g.body(1, usable, False), tyrefs), None))
    if rnd.random() < 0.25:       # a duplicate top-level name: both sides must report it
        names = [n[1] for n in items if n[0] in ("leaf", "container", "list")]
        if names:
            items.append(g.leaf(rnd.choice(names)))
    rnd.shuffle(items)
    # definitions need not precede their uses in YANG; keep the shuffled order
    whole = dict(name=MOD, prefix=PFX, ns=NS, belongs=None, imports=[], includes=[],
                 body=[n for n in items if n[0] not in ("typedef", "identity")], augments=[], deviations=[])
    augments = []
    paths = [p for p in sg.expand_paths([whole], whole, None) if p[1] in ("container", "list", "case", "notification", "input")]
    for _ in range(rnd.choice([0, 1, 1, 2])):
        if not paths:
            break
        steps, kind, _n = rnd.choice(paths)
        body = _retype(rnd, g.body(1, usable, allow_action=False, n=rnd.randint(1, 2)), tyrefs)
        augments.append(("/" + "/".join(PFX + ":" + s_ for s_ in steps), body))
    return items, augments


def split_family(rnd, items, augments, vis11=False):
    """-> parts: list of dict(items, augments, includes) ; part 0 is the module, parts 1.. the submodules.
    vis11: typedefs and identities stay in the part they were dealt to, wherever they are used from (the module
    itself, a sibling submodule that is not included by the user): every part of a module sees the top-level typedefs
    and identities of the whole module (RFC 7950 5.1, what Type.resolve / the identity dictionary implement); a
    submodule then often has NO include statement of its own.  Groupings always follow the RFC 6020 rule."""
    k = rnd.randint(1, 3)
    where = {}                       # index of the statement -> part
    stm = [("item", n) for n in items] + [("aug", a) for a in augments]
    for i in range(len(stm)):
        where[i] = rnd.randint(0, k)
    defs = {}
    for i, (kind, n) in enumerate(stm):
        if kind == "item" and n[0] in ("typedef", "identity"):
            defs[(n[0], n[1])] = i
        elif kind == "item" and n[0] == "grouping":
            defs[("grouping", n[2])] = i
    refs = {}
    for i, (kind, n) in enumerate(stm):
        if kind == "item":
            refs[i] = _refs_of(n)
        else:
            refs[i] = set()
            for c in n[1]:
                refs[i] |= _refs_of(c)
    # a submodule can only name what it declares itself or what a submodule it includes declares; includes go from
    # lower to higher part numbers (no cycles): move definitions up until every reference obeys that
    changed = True
    while changed:
        changed = False
        for i in range(len(stm)):
            x = where[i]
            if x == 0:
                continue
            for r in refs[i]:
                if vis11 and r[0] != "grouping":
                    continue
                d = defs.get(r)
                if d is not None and d != i and (where[d] == 0 or where[d] < x):
                    where[d] = x
                    changed = True
    parts = [dict(items=[], augments=[], includes=set()) for _ in range(k + 1)]
    for i, (kind, n) in enumerate(stm):
        (parts[where[i]]["items"] if kind == "item" else parts[where[i]]["augments"]).append(n)
        for r in refs[i]:
            if vis11 and r[0] != "grouping":
                continue
            d = defs.get(r)
            if d is not None and where[d] not in (0, where[i]):
                parts[where[i]]["includes"].add(where[d])

    def reach(x, seen):
        for y in sorted(parts[x]["includes"]):
            if y not in seen:
                seen.add(y)
                reach(y, seen)
        return seen
    # sometimes rely on nested includes only: drop a direct include that is reachable through another one
    for x in range(k + 1):
        for y in sorted(parts[x]["includes"]):
            if rnd.random() < 0.35:
                parts[x]["includes"].discard(y)
                if y not in reach(x, set()):
                    parts[x]["includes"].add(y)
    for y in range(1, k + 1):
        if y not in reach(0, set()):
            lower = [x for x in range(0, y) if x == 0 or x in reach(0, set())]
            parts[rnd.choice(lower)]["includes"].add(y)
    for x in range(k + 1):
        for y in range(x + 1, k + 1):
            if rnd.random() < (0.08 if vis11 else 0.15):
                parts[x]["includes"].add(y)
    return parts


def _mod_dict(name, belongs, includes, items, augments):
    return dict(name=name, prefix=PFX, ns=NS if belongs is None else "", belongs=belongs, imports=[], includes=includes,
                body=[n for n in items if n[0] not in ("typedef", "identity")],
                extra=[n for n in items if n[0] in ("typedef", "identity")], augments=augments, deviations=[])


def family_schemas(parts):
    """split schema (module + submodules) and the unsplit module, as schema_gen module dicts (+ 'extra' statements)"""
    names = [MOD] + ["%ss%d" % (MOD, i) for i in range(1, len(parts))]
    split = []
    for i, p in enumerate(parts):
        incs = sorted(p["includes"])
        split.append(_mod_dict(names[i], None if i == 0 else MOD, [names[y] for y in incs], p["items"], p["augments"]))
    order, seen = [], set()

    def dfs(x):
        for y in sorted(parts[x]["includes"]):
            if y not in seen:
                seen.add(y)
                order.append(y)
                dfs(y)
    dfs(0)
    its, augs = list(parts[0]["items"]), list(parts[0]["augments"])
    for y in order:
        its += parts[y]["items"]
        augs += parts[y]["augments"]
    return split, [_mod_dict(MOD, None, [], its, augs)]


_IDREF = re.compile(r"(type identityref \{ base [^;]+; \});")


def render_family_module(m):
    txt = sg.render_module(m)
    txt = _IDREF.sub(r"\1", txt)
    extra = ""
    for n in m.get("extra", []):
        if n[0] == "typedef":
            t = n[2] if n[2].endswith("}") else n[2] + ";"
            extra += "  typedef %s { type %s }\n" % (n[1], t) if n[2].endswith("}") else "  typedef %s { type %s }\n" % (n[1], t)
        else:
            extra += "  identity %s { %s}\n" % (n[1], "".join("base %s; " % b for b in n[2]))
    # definitions go right after the header (before the first data statement): after the last include/prefix line
    lines = txt.split("\n")
    at = 0
    for i, l in enumerate(lines):
        if l.startswith("  include ") or l.startswith("  prefix ") or l.startswith("  belongs-to ") or l.startswith("  namespace "):
            at = i + 1
    return "\n".join(lines[:at]) + "\n" + extra + "\n".join(lines[at:])


def go_family_case(schema):
    toks = ["process", "-", ",".join(["L%d" % i for i in range(len(schema))] + ["P"]), str(len(schema))]
    for m in schema:
        toks += [sg.hx(m["name"] + ".yang"), sg.hx(render_family_module(m))]
    return " ".join(toks)


def _nid(s):
    """identity key without the owner/sub spelling of submodule-defined identities"""
    return re.sub(r"^([^/:]+)/[^:]+:", r"\1:", s)


def _ctype(t):
    if t is None:
        return None
    return dict(name=t["name"], kind=t["kind"], units=t.get("units"), default=t.get("default"), hasdef=t.get("hasdef"),
                fd=t.get("fd"), range=t.get("range"), length=t.get("length"), pattern=t.get("pattern"), enum=t.get("enum"),
                bit=t.get("bit"), path=t.get("path"), idbase=_nid(t["idbase"]) if t.get("idbase") else None,
                idvalues=[_nid(v) for v in t.get("idvalues") or []], union=[_ctype(u) for u in t.get("union") or []])


def _cnode(n):
    if n is None:
        return None
    return dict(name=n["name"], kind=n["kind"], config=n["config"], mandatory=n["mandatory"], default=n.get("default"),
                units=n.get("units"), key=n.get("key"), list=n.get("list"), ns=n["ns"], instmod=n["instmod"], ro=n["ro"],
                defvals=n.get("defvals"), prefix=n.get("prefix"), hasdir=n["hasdir"], hasrpc=n.get("hasrpc"),
                type=_ctype(n.get("type")), input=_cnode(n.get("input")), output=_cnode(n.get("output")),
                children=sorted((_cnode(c) for c in n.get("children") or []), key=lambda c: c["name"]))


def family_obs(line):
    """what the property compares: verdict, tree of module m, identity value lists, all by name"""
    if not line.startswith("{"):
        return dict(status=line.split(" ")[0][:40])
    j = json.loads(line)
    if any(l.startswith("err") for l in j["loads"]):
        return dict(status="err", where="load")
    run = j["runs"][-1]
    if run["errors"]:
        return dict(status="err", where="process", errors=run["errors"][:3])
    tree, idents = None, {}
    for m in run["modules"]:
        if m["name"] == MOD and not m["sub"]:
            tree = _cnode(m["tree"])
        for i in m.get("identities") or []:
            idents[_nid(i["name"])] = [_nid(v) for v in i["values"]]
    return dict(status="ok", tree=tree, identities=idents, treeviol=run.get("treeviol") or [])


def _first_diff(a, b, path=""):
    if type(a) != type(b):
        return "%s: %r vs %r" % (path, a, b)
    if isinstance(a, dict):
        for k in sorted(set(a) | set(b)):
            d = _first_diff(a.get(k), b.get(k), path + "/" + (a.get("name") or "") + "." + k if k == "children" else path + "." + k)
            if d:
                return d
        return None
    if isinstance(a, list):
        if len(a) != len(b):
            return "%s: %d vs %d entries (%s | %s)" % (path, len(a), len(b), str(a)[:120], str(b)[:120])
        for i, (x, y) in enumerate(zip(a, b)):
            d = _first_diff(x, y, path + "[%s]" % (x.get("name") if isinstance(x, dict) else i))
            if d:
                return d
        return None
    return None if a == b else "%s: %r vs %r" % (path, a, b)


def enum_include_orders():
    """module m including three submodules a, b, c: every order of the include list x every acyclic set of
    cross-includes among them (25 graphs: a->b, a->c, b->c, diamonds, chains ...), definitions in every submodule, used
    from every part that reaches them; plus the module listing only two of them when the third is reached through one"""
    subs = ["a", "b", "c"]
    pairs = [(x, y) for x in subs for y in subs if x != y]

    def closure(edges, x):
        seen, todo = [], [x]
        while todo:
            u = todo.pop()
            for (p_, q_) in edges:
                if p_ == u and q_ not in seen:
                    seen.append(q_)
                    todo.append(q_)
        return seen
    fams = []
    for mask in range(1 << len(pairs)):
        edges = [pairs[i] for i in range(len(pairs)) if mask >> i & 1]
        if any(x in closure(edges, x) for x in subs):
            continue
        for perm in itertools.permutations(subs):
            lists = [list(perm)]
            for drop in subs:          # rely on a nested include for one of them
                rest = [x for x in perm if x != drop]
                if any(drop in closure(edges, x) for x in rest):
                    lists.append(rest)
            for incl in lists:
                for rich in (True, False):
                    parts = {}
                    for x in subs:
                        reach = closure(edges, x)
                        items = [("grouping", 100 + subs.index(x), "g" + x, [("leaf", "in-" + x, "string", None, None, None, None)])]
                        if rich:
                            items.append(("typedef", "t" + x, "string"))
                            items.append(("identity", "i" + x, [PFX + ":i" + y for y in reach[:1]]))
                        body = [("uses", "g" + y) for y in [x] + reach]
                        if rich:
                            body += [("leaf", "l%s%s" % (x, y), "t" + y, None, None, None, None) for y in [x] + reach]
                        items.append(("container", "c" + x, None, body))
                        parts[x] = (items, [y for (p_, y) in edges if p_ == x])
                    top = [("uses", "g" + y) for y in subs]
                    if rich:
                        top += [("leaf", "lm" + y, PFX + ":t" + y, None, None, None, None) for y in subs]
                        top += [("leaf", "ri" + y, "identityref { base %s:i%s; }" % (PFX, y), None, None, None, None) for y in subs]
                    mitems = [("container", "top", None, top)]
                    split = [_mod_dict(MOD, None, [MOD + x for x in incl], mitems, [])]
                    for x in subs:
                        split.append(_mod_dict(MOD + x, MOD, [MOD + y for y in parts[x][1]], parts[x][0], []))
                    order, seen = [], set()

                    def dfs(incs):
                        for y in incs:
                            if y not in seen:
                                seen.add(y)
                                order.append(y)
                                dfs(parts[y][1])
                    dfs(incl)
                    its = list(mitems)
                    for y in order:
                        its += parts[y][0]
                    fams.append(dict(rich=rich, split=split, unsplit=[_mod_dict(MOD, None, [], its, [])]))
    return fams


def enum_visibility():
    """module m and submodules a, b, c (every acyclic include graph among them, the module listing all three or
    relying on a nested include for one): the module and every submodule define a typedef (told apart by its range), a
    typedef built on the next part's one and an identity; EVERY part refers to the typedefs and identities of ALL four
    parts -- unprefixed and with the module's prefix, in a top-level leaf, below a container, inside a local grouping
    and as a typedef's base -- whether or not it includes the part that defines them.  A submodule has 0, 1 or 2
    include statements of its own, related or unrelated to what it names (every part of a module sees the top-level
    typedefs and identities of the whole module)."""
    subs = ["a", "b", "c"]
    allp = ["m"] + subs
    pairs = [(x, y) for x in subs for y in subs if x != y]
    rng = dict(m="1..10", a="11..20", b="21..30", c="31..40")

    def closure(edges, x):
        seen, todo = [], [x]
        while todo:
            u = todo.pop()
            for (p_, q_) in edges:
                if p_ == u and q_ not in seen:
                    seen.append(q_)
                    todo.append(q_)
        return seen
    fams = []
    for mask in range(1 << len(pairs)):
        edges = [pairs[i] for i in range(len(pairs)) if mask >> i & 1]
        if any(x in closure(edges, x) for x in subs):
            continue
        lists = [list(subs)]
        for drop in subs:
            rest = [x for x in subs if x != drop]
            if any(drop in closure(edges, x) for x in rest):
                lists.append(rest)
        for li, incl in enumerate(lists):
            def items_of(x):
                nxt = allp[(allp.index(x) + 1 + li) % 4]
                pf = lambda j, n: (PFX + ":" + n) if (j + mask + li) % 2 else n
                its = [("typedef", "t" + x, 'int32 { range "%s"; }' % rng[x]),
                       ("typedef", "u" + x, pf(0, "t" + nxt)),
                       ("identity", "i" + x, [pf(1, "i" + nxt)] if x != "c" else [])]
                leaves = [("leaf", "l%s%s" % (x, y), pf(j, "t" + y), None, None, None, None) for j, y in enumerate(allp)]
                deep = [("leaf", "d%s%s" % (x, y), pf(j + 1, "u" + y), None, None, None, None) for j, y in enumerate(allp)]
                refs = [("leaf", "r%s%s" % (x, y), "identityref { base %s; }" % pf(j, "i" + y), None, None, None, None)
                        for j, y in enumerate(allp)]
                its.append(("grouping", 200 + allp.index(x), "h" + x,
                            [("leaf", "g%s%s" % (x, y), pf(j, "t" + y), None, None, None, None) for j, y in enumerate(allp)]))
                its += leaves[:2]
                its.append(("container", "c" + x, None, leaves[2:] + [("container", "in", None, deep + refs), ("uses", "h" + x)]))
                return its
            parts = {x: (items_of(x), [y for (p_, y) in edges if p_ == x]) for x in subs}
            mitems = items_of("m")
            split = [_mod_dict(MOD, None, [MOD + x for x in incl], mitems, [])]
            for x in subs:
                split.append(_mod_dict(MOD + x, MOD, [MOD + y for y in parts[x][1]], parts[x][0], []))
            its = list(mitems)
            for y in subs:
                its += parts[y][0]
            fams.append(dict(rich=True, vis11=True, split=split, unsplit=[_mod_dict(MOD, None, [], its, [])]))
    return fams


def gen_include(tier, rnd):
    """-> list of dict(rich, split, unsplit)"""
    fams = enum_include_orders() + enum_visibility()
    for i in range(250 if tier == "quick" else 8000):
        rich = i % 3 != 0
        vis11 = rich and i % 2 == 0
        items, augments = gen_family(rnd, rich)
        parts = split_family(rnd, items, augments, vis11)
        split, unsplit = family_schemas(parts)
        fams.append(dict(rich=rich, vis11=vis11, split=split, unsplit=unsplit))
    return fams


def run_include(res, tier, rnd, stats):
    fams = gen_include(tier, rnd)
    go_lines, ml_lines = [], []
    for f in fams:
        go_lines += [go_family_case(f["split"]), go_family_case(f["unsplit"])]
        if not f["rich"]:
            ml_lines += [sg.model_case(f["split"]), sg.model_case(f["unsplit"])]
    go = lib.run_go(go_lines)
    ml = lib.run_ml(ml_lines)
    mi = 0
    viol = 0
    for k, f in enumerate(fams):
        gs, gu = go[2 * k], go[2 * k + 1]
        a, b = family_obs(gs), family_obs(gu)
        stats["include_" + a["status"]] = stats.get("include_" + a["status"], 0) + 1
        nested = any(m["belongs"] and m["includes"] for m in f["split"])
        stats["include_nested"] += 1 if nested else 0
        if f.get("vis11"):
            stats["include_modulewide_visibility"] = stats.get("include_modulewide_visibility", 0) + 1
            if any(m["belongs"] and not m["includes"] and (m.get("extra") or m["body"]) for m in f["split"]):
                stats["include_submodule_without_includes"] = stats.get("include_submodule_without_includes", 0) + 1
        diff = None
        if a["status"] != b["status"]:
            diff = "verdict: split %s %s, unsplit %s %s" % (a["status"], a.get("errors", a.get("where", "")), b["status"],
                                                          b.get("errors", b.get("where", "")))
        elif a["status"] == "ok":
            diff = _first_diff(dict(tree=a["tree"], identities=a["identities"]), dict(tree=b["tree"], identities=b["identities"]))
            if not diff and (a["treeviol"] or b["treeviol"]):
                stats["include_treeviol"] = stats.get("include_treeviol", 0) + 1
        if diff:
            viol += 1
            if viol <= 3:
                res.violation("include is not inline: split and unsplit module differ: %s" % diff[:400],
                              dict(kind="include", split=go_lines[2 * k], unsplit=go_lines[2 * k + 1],
                                   texts=[render_family_module(m) for m in f["split"]]))
        if not f["rich"]:
            for which, gl, ml_l, case in (("split", gs, ml[mi], ml_lines[mi]), ("unsplit", gu, ml[mi + 1], ml_lines[mi + 1])):
                st, canon, _j = sg.canon_go(gl)
                mo = ml_l.split(" ")[0]
                ok = (mo == "err" and st in ("err", "loaderr")) or (mo == "ok" and st == "ok" and canon == ml_l)
                stats["include_model_runs"] += 1
                if not ok:
                    viol += 1
                    if viol <= 3:
                        res.violation("core model and implementation disagree on the %s schema of an include family: impl=%s model=%s"
                                      % (which, (canon or st)[:200], ml_l[:200]),
                                      dict(kind="include-model", case=case, go_case=gl[:0] + (go_lines[2 * k] if which == "split" else go_lines[2 * k + 1])))
            mi += 2
    return len(go_lines) + len(ml_lines), fams, go_lines


# ------------------------------------------------------- references through imports bind to the right revision
# (implementation only)  Two or three revisions of module f are loaded, each defining identities, a typedef and a grouping of
# its own (marked with the revision), some only in an old revision, some in a submodule only an old revision includes.
# User modules import f with and without revision-date and refer to them.  Every reference must resolve to the
# definition of exactly the revision the import denotes, in every load order.
REVS = ["2018-01-01", "2019-01-01", "2020-01-01"]


def gen_revfam(rnd):
    """-> (texts, flat texts, expect): [flat] = the same set with the shared submodules written into every revision"""
    revs = REVS[rnd.choice([0, 1]):]
    leg_of = rnd.choice(revs[:-1] + [None])            # the revision that includes the legacy submodule
    shared = rnd.random() < 0.6                        # every revision includes fsh (which includes fsh2)
    shape = rnd.choice(["both", "nested-only"])        # include fsh; include fsh2;  |  include fsh; (fsh2 through fsh)
    no_latest_dev = rnd.random() < 0.4                 # only older revisions carry a deviation
    texts, flat, expect = [], [], dict(users={}, derived={}, shared=shared, revs=revs, no_latest_dev=no_latest_dev)
    sh_body = "container sc { leaf sa { type string; } } identity SHI { base COMMON; } identity SHP { base f:COMMON; } " \
              "leaf sref { type identityref { base COMMON; } } "
    sh2_body = "container sd { leaf sb { type string; } } "
    for r in revs:
        y = r[:4]
        older = [x for x in revs if x <= r]
        incl = ("include fleg; " if leg_of == r else "") + \
               (("include fsh; include fsh2; " if shape == "both" else "include fsh; ") if shared else "")
        rest = '%s identity COMMON; identity ONLY%s; typedef t { type string; units "rev%s"; } ' \
               'grouping g { leaf m%s { type string; } } leaf only%s { type string; } ' \
               'leaf dv { type string; } %s' % (
                   "".join("revision %s; " % x for x in reversed(older)), y, y, y, y,
                   "" if (r == revs[-1] and no_latest_dev) else 'deviation "/f:dv" { deviate add { default "dev%s"; } } ' % y)
        texts.append(("f" + y, 'module f { namespace "urn:f"; prefix f; %s%s}' % (incl, rest)))
        flat.append(("f" + y, 'module f { namespace "urn:f"; prefix f; %s%s%s}' % (
            "include fleg; " if leg_of == r else "", rest, (sh_body + sh2_body) if shared else "")))
        expect["derived"][r] = {"f:COMMON": {"f:SHI", "f:SHP"} if shared else set(), "f:ONLY" + y: set()}
    if shared:
        texts.append(("fsh", "submodule fsh { belongs-to f { prefix f; } include fsh2; %s}" % sh_body))
        texts.append(("fsh2", "submodule fsh2 { belongs-to f { prefix f; } %s}" % sh2_body))
    if leg_of:
        leg = ('submodule fleg { belongs-to f { prefix f; } identity LEGACY { base COMMON; } '
               'typedef tl { type int8; units "legacy"; } grouping gl { leaf mleg { type string; } } }')
        texts.append(("fleg", leg))
        flat.append(("fleg", leg))
        expect["derived"][leg_of]["f:COMMON"].add("f:LEGACY")
        expect["derived"][leg_of]["f:LEGACY"] = set()
    users = [(r, "u" + r[:4]) for r in revs if rnd.random() < 0.85] + [(None, "ub")]
    if rnd.random() < 0.5:
        users.append((rnd.choice(revs), "ux"))
    for pin, name in users:
        r = pin or revs[-1]
        y = r[:4]
        leg = leg_of == r
        st = ['import f { prefix f; %s}' % ("revision-date %s; " % pin if pin else "")]
        st += ["identity U1 { base f:ONLY%s; }" % y if pin else "", "identity UC { base f:COMMON; }",
               "leaf a { type identityref { base f:ONLY%s; } }" % y if pin else "",
               "leaf b { type f:t; }", "leaf d { type identityref { base f:COMMON; } }",
               "leaf un { type union { type f:t; type int8; } }",
               "container k { uses f:g; %s}" % ("uses f:gl; " if leg else "")]
        if pin:
            expect["derived"][r]["f:ONLY" + y].add(name + ":U1")
        expect["derived"][r]["f:COMMON"].add(name + ":UC")
        if leg and pin:
            st += ["identity U2 { base f:LEGACY; }", "leaf c { type f:tl; }"]
            expect["derived"][r]["f:LEGACY"].add(name + ":U2")
            expect["derived"][r]["f:COMMON"].add(name + ":U2")
        if shared and pin:
            st += ['augment "/f:sc" { leaf z%s { type string; } }' % name, 'augment "/f:sd" { leaf w%s { type string; } }' % name]
            expect.setdefault("augs", {}).setdefault(r, []).append(name)
        t = 'module %s { namespace "urn:%s"; prefix %s; %s }' % (name, name, name, " ".join(x for x in st if x))
        texts.append((name, t))
        flat.append((name, t))
        expect["users"][name] = dict(rev=r, leg=leg and bool(pin), pinned=bool(pin))
    if rnd.random() < 0.6:
        pin = rnd.choice(["2018-01-01", "2019-01-01"])
        expect["ginc"] = pin
        for tl in (texts, flat):
            tl.append(("g", 'module g { namespace "urn:g"; prefix g; include gs { revision-date %s; } leaf own { type string; } }' % pin))
            for r in ("2018-01-01", "2019-01-01"):
                tl.append(("gs" + r[:4], 'submodule gs { belongs-to g { prefix g; } revision %s; container gc { leaf g%s { type string; } } }' % (r, r[:4])))
    return texts, flat, expect


def revfam_case(texts, order, stage=None):
    """stage = set of text names loaded (and processed) first; the rest afterwards, then Process again"""
    idx = [i for i in order]
    if stage is None:
        ops = ["L%d" % i for i in range(len(idx))] + ["P"]
    else:
        first = [k for k, i in enumerate(idx) if texts[i][0] in stage]
        later = [k for k, i in enumerate(idx) if texts[i][0] not in stage]
        ops = ["L%d" % k for k in first] + ["P"] + ["L%d" % k for k in later] + ["P"]
    toks = ["process", "-", ",".join(ops), str(len(texts))]
    for i in idx:
        toks += [sg.hx(texts[i][0] + ".yang"), sg.hx(texts[i][1])]
    return " ".join(toks)


def revfam_trees(line):
    """canonical tree of every module revision of the last run, by (name, revision); the identityref leaf of the
    shared submodule is one statement in all revisions: its values are compared by check_revfam, not here"""
    j = json.loads(line)
    out = {}
    for m in j["runs"][-1].get("modules") or []:
        if not m["sub"]:
            t = _cnode(m["tree"])
            for c in t["children"]:
                if c["name"] == "sref" and c.get("type"):
                    c["type"]["idvalues"] = []
            out["%s@%s" % (m["name"], m.get("rev"))] = t
    return out


def check_revfam(line, expect):
    """None if every reference is bound to the revision its import denotes, else what is wrong"""
    if not line.startswith("{"):
        return "no dump: " + line[:100]
    j = json.loads(line)
    if any(l.startswith("err") for l in j["loads"]):
        return "a text was rejected: %s" % j["loads"]
    run = j["runs"][-1]
    if run["errors"]:
        return "Process reports %s" % run["errors"][:2]
    if run.get("treeviol"):
        return "tree invariant violated (parent pointers / sharing between the trees of two revisions): %s" % run["treeviol"][:3]
    derived = {}
    for m in run["modules"]:
        if m["name"] == "f":
            derived.setdefault(m.get("rev"), {}).update({_nid(i["name"]): {_nid(v) for v in i["values"]}
                                                         for i in m.get("identities") or []})
    for m in run["modules"]:
        if m["name"] == "fleg":
            for r, d in expect["derived"].items():
                if "f:LEGACY" in d:
                    derived.setdefault(r, {}).update({_nid(i["name"]): {_nid(v) for v in i["values"]}
                                                      for i in m.get("identities") or []})
    for r, d in expect["derived"].items():
        for k, v in d.items():
            got = derived.get(r, {}).get(k)
            if got != v:
                return "derived identities of %s in revision %s: %s, expected %s" % (k, r, sorted(got) if got is not None else None, sorted(v))
    for m in run["modules"]:
        if m["name"] == "f" and expect["shared"]:
            kids = {c["name"]: c for c in m["tree"].get("children") or []}
            for cont, pre in (("sc", "z"), ("sd", "w")):
                got = sorted(c["name"] for c in (kids.get(cont) or {}).get("children") or [])
                want = sorted([("sa" if cont == "sc" else "sb")] + [pre + u for u in expect.get("augs", {}).get(m.get("rev"), [])])
                if got != want:
                    return "revision %s of f: container %s has %s, expected %s (an augment through a pinned import landed in " \
                           "another revision, or the submodule's nodes are missing)" % (m.get("rev"), cont, got, want)
            if sorted(k for k in kids if k.startswith("only")) != ["only" + m["rev"][:4]]:
                return "revision %s of f has the leaves %s" % (m.get("rev"), sorted(kids))
            # the identityref leaf of the shared submodule: in the latest revision's tree it is based on the latest
            # revision's identity (in an older revision's tree the one shared statement may show the latest's or its own)
            latest = expect["revs"][-1]
            got = {_nid(v) for v in (kids["sref"].get("type") or {}).get("idvalues") or []}
            ok = [expect["derived"][latest]["f:COMMON"]] + ([expect["derived"][m["rev"]]["f:COMMON"]] if m["rev"] != latest else [])
            if got not in ok:
                return "revision %s of f: identityref sref of the shared submodule has the values %s, expected %s" % (
                    m.get("rev"), sorted(got), " or ".join(str(sorted(x)) for x in ok))
        if m["name"] == "f":
            kids = {c["name"]: c for c in m["tree"].get("children") or []}
            dflt = kids["dv"].get("default") or None
            want = ["dev" + m["rev"][:4]] if (m["rev"] == expect["revs"][-1] and not expect.get("no_latest_dev")) else None
            if dflt != want:
                return "revision %s of f: leaf dv has default %s, expected %s: only the deviations of the latest revision of a " \
                       "module are applied, and to that revision's tree" % (m.get("rev"), dflt, want)
        if m["name"] == "g" and expect.get("ginc"):
            kids = {c["name"]: c for c in m["tree"].get("children") or []}
            got = sorted(c["name"] for c in (kids.get("gc") or {}).get("children") or [])
            if got != ["g" + expect["ginc"][:4]] or m.get("includes") != ["gs=gs@" + expect["ginc"]]:
                return "module g includes %s and has gc = %s, expected revision %s of gs" % (m.get("includes"), got, expect["ginc"])
        u = expect["users"].get(m["name"])
        if not u:
            continue
        y = u["rev"][:4]
        if m.get("imports") != ["f=f@" + u["rev"]]:
            return "%s: import bound to %s, expected f@%s" % (m["name"], m.get("imports"), u["rev"])
        kids = {c["name"]: c for c in m["tree"].get("children") or []}
        if (kids["b"].get("type") or {}).get("units") != "rev" + y:
            return "%s: leaf b has the typedef of %s, expected rev%s" % (m["name"], (kids["b"].get("type") or {}).get("units"), y)
        un = ((kids["un"].get("type") or {}).get("union") or [{}])[0]
        if un.get("units") != "rev" + y:
            return "%s: the union of leaf un holds the typedef of %s, expected rev%s" % (m["name"], un.get("units"), y)
        got = sorted(c["name"] for c in kids["k"].get("children") or [])
        want = sorted(["m" + y] + (["mleg"] if u["leg"] else []))
        if got != want:
            return "%s: container k has %s, expected %s (grouping of the wrong revision)" % (m["name"], got, want)
        t = kids["d"].get("type") or {}
        if t.get("idbase") != "f:COMMON" or {_nid(v) for v in t.get("idvalues") or []} != expect["derived"][u["rev"]]["f:COMMON"]:
            return "%s: identityref d (base f:COMMON) has the values %s, expected those of revision %s: %s" % (
                m["name"], sorted(t.get("idvalues") or []), u["rev"], sorted(expect["derived"][u["rev"]]["f:COMMON"]))
        if u["pinned"]:
            t = kids["a"].get("type") or {}
            if t.get("idbase") != "f:ONLY" + y or set(t.get("idvalues") or []) != expect["derived"][u["rev"]]["f:ONLY" + y]:
                return "%s: identityref a is based on %s with values %s" % (m["name"], t.get("idbase"), t.get("idvalues"))
        if u["leg"] and (kids["c"].get("type") or {}).get("units") != "legacy":
            return "%s: leaf c is not typed by the legacy submodule's typedef" % m["name"]
    return None


def run_revfam(res, tier, rnd, stats):
    lines, exps = [], []
    for _ in range(30 if tier == "quick" else 400):
        texts, flat, expect = gen_revfam(rnd)
        n = len(texts)
        newest = "f" + expect["revs"][-1][:4]
        for k in range(7):
            o = list(range(n)) if k == 0 else (list(reversed(range(n))) if k == 1 else rnd.sample(range(n), n))
            # batch; then the same as a history: everything but the newest revision (and the users pinned to it) first
            lines.append(revfam_case(texts, o))
            exps.append((expect, [t[0] for t in texts], o, "batch", None))
            if k < 4:
                later = {newest} | {u for u, d in expect["users"].items() if d["pinned"] and d["rev"] == expect["revs"][-1]}
                lines.append(revfam_case(texts, o, stage={t[0] for t in texts} - later))
                exps.append((expect, [t[0] for t in texts], o, "staged", None))
                # a pinned revision arrives late: its importers / the includer were processed with another one in its place
                late = {"f" + rnd.choice(expect["revs"])[:4]}
                if expect.get("ginc"):
                    late.add("gs" + expect["ginc"][:4])
                lines.append(revfam_case(texts, o, stage={t[0] for t in texts} - late))
                exps.append((expect, [t[0] for t in texts], o, "staged-pinned-late", None))
            if k < 3 and expect["shared"]:
                of = rnd.sample(range(len(flat)), len(flat))
                lines.append(revfam_case(flat, of))
                exps.append((expect, [t[0] for t in flat], of, "flat", len(lines) - (4 if k < 4 else 2)))
    go = lib.run_go(lines)
    bad = 0
    for k, (l, g, (e, names, o, mode, ref)) in enumerate(zip(lines, go, exps)):
        why = check_revfam(g, e)
        stats["revision_cases"] += 1
        stats["revision_" + mode] = stats.get("revision_" + mode, 0) + 1
        if not why and mode == "flat":
            d = _first_diff(revfam_trees(go[ref]), revfam_trees(g))
            if d:
                why = "the trees of the revisions differ from the same modules written without the shared submodules: " + d
        if why:
            bad += 1
            if bad <= 3:
                res.violation("a name is not bound to the revision it denotes (%s, load order %s): %s"
                              % (mode, [names[i] for i in o], why[:300]), dict(kind="revisions", case=l, expect=_jsonable(e)))
    return len(lines)


def _jsonable(e):
    return dict(users=e["users"], derived={r: {k: sorted(v) for k, v in d.items()} for r, d in e["derived"].items()},
                shared=e["shared"], revs=e["revs"], augs=e.get("augs", {}), ginc=e.get("ginc"), no_latest_dev=e.get("no_latest_dev"))


# ------------------------------------------------------------------------------------ run

def canon_ml(m):
    return m.split(" | ")[0]


def in_claim_name(name_hex):
    n = bytes.fromhex(name_hex) if name_hex != "-" else b""
    return b"/" not in n and not n.endswith(b".yang")


def judge(res, c, g, m, stats):
    """oracle step for one case; the tie has already been checked"""
    spec = fields(m.split(" | ", 1)[1]) if " | " in m else {}
    t = c.split()
    if t[0] == "registry":
        if spec.get("names_ok") != "1":
            stats["registry_outside_claim"] += 1
            return
        go = fields(g)
        if go.get("v", "-") != spec["sv"]:
            res.violation("registry verdicts differ from the specification: %s impl=%s spec=%s" %
                          (c[:300], go.get("v"), spec["sv"]), dict(kind="oracle", case=c, impl=g, model=m))
            return
        if lst(go.get("f", "-"), ",") != lst(spec["sf"], ","):
            res.violation("registry lookup differs from the specification: %s impl=%s spec=%s" %
                          (c[:300], go.get("f"), spec["sf"]), dict(kind="oracle", case=c, impl=g, model=m))
    elif t[0] in ("findtwice", "readseq"):
        return                      # model-vs-implementation only
    elif t[0] == "findfile":
        if not in_claim_name(t[4]):
            stats["findfile_outside_claim"] += 1
            return
        if g != spec.get("spec"):
            if spec.get("nested") == "1":
                stats["dots_hits"] += 1
                res.known("findfile.dots-subdir-first", c)
            else:
                res.violation("file chooser differs from the specification: %s impl=%s spec=%s" %
                              (c[:300], g, spec.get("spec")), dict(kind="oracle", case=c, impl=g, model=m))


def metamorphic(res, cases, go, stats):
    """bindings after every permutation of a distinct-key header set are the same"""
    groups = {}
    for c, g in zip(cases, go):
        t = c.split()
        if t[0] != "registry":
            continue
        if any(x.startswith("t:") for x in t[1:]):
            continue
        adds = [x for x in t[1:] if x.startswith("a:")]
        if len(adds) < 2 or any(x.startswith("f:") for x in t[1:1 + len(adds)]):
            continue
        keys = [py_key(a) for a in adds]
        if len(set(keys)) != len(keys) or any(b"@" in bytes.fromhex(k[1]) for k in keys):
            continue
        f = fields(g)
        ids = [i for i, x in enumerate(t[1:]) if x.startswith("a:")]
        name_of = {str(i): t[1 + i] for i in ids}
        bind = tuple(tuple(sorted((kv.split(":")[0], name_of.get(kv.split(":")[1], "?")) for kv in lst(f.get(k, "-"), ",")))
                     for k in ("M", "S"))
        groups.setdefault(frozenset(adds), []).append((c, bind))
    for s, l in groups.items():
        stats["perm_groups"] += 1 if len(l) > 1 else 0
        for c, b in l[1:]:
            stats["perm_pairs"] += 1
            if b != l[0][1]:
                res.violation("final bindings depend on the load order: %s vs %s" % (l[0][0][:200], c[:200]),
                              dict(kind="metamorphic", case=c, other=l[0][0]))
                return


def run_both(cases):
    tmp = tempfile.mkdtemp(prefix="c13cwd")
    try:
        go = lib.run_go(cases, cwd=tmp)
    finally:
        shutil.rmtree(tmp, ignore_errors=True)
    return go, lib.run_ml(cases)


def run(res, tier, seed, proof):
    rnd = random.Random(seed)
    reg = gen_registry(tier, rnd)
    ff = gen_findfile(tier, rnd)
    here = gen_here(tier, random.Random(seed + 1))
    cases = reg + ff + here
    go, ml = run_both(cases)
    stats = dict(registry_outside_claim=0, findfile_outside_claim=0, dots_hits=0, perm_groups=0, perm_pairs=0)
    mism = 0
    for c, g, m in zip(cases, go, ml):
        if g != canon_ml(m):
            mism += 1
            if mism <= 3:
                res.violation("model-vs-implementation disagree on case: %s  impl=%s model=%s" % (c[:300], g[:300], m[:300]),
                              dict(kind="correspondence", case=c, impl=g, model=m))
            continue
        judge(res, c, g, m, stats)
    metamorphic(res, cases, go, stats)
    stats.update(include_nested=0, include_model_runs=0, revision_cases=0)
    n_inc, fams, inc_lines = run_include(res, tier, rnd, stats)
    n_inc += run_revfam(res, tier, rnd, stats)

    def nontrivial(c):
        t = c.split()
        if t[0] == "registry":
            adds = [x.split(":") for x in t[1:] if x.startswith("a:")]
            return len(adds) >= 2 and len({(a[1], a[2]) for a in adds}) < len(adds)
        return c.count("666f6f") >= 2      # at least two entries whose name starts with the stem

    outs = {}
    for c, g in zip(ff, go[len(reg):]):
        k = "none" if g == "-" else ("name.yang" if g.endswith(hx("foo.yang")) else "dated")
        outs[k] = outs.get(k, 0) + 1
    rej = sum(g.split()[0].count("0") for g in go[:len(reg)] if g.startswith("v="))
    hg = go[len(reg) + len(ff):]
    stats["here_cases"] = len(here)
    stats["here_histories"] = sum(1 for c in here if c.startswith("readseq"))
    stats["here_found_dated"] = sum(1 for g in hg for x in g.split(",") if "40" in x.split("/")[-1])
    stats["here_not_found"] = sum(1 for g in hg for x in g.split(",") if x == "-")
    cov = dict(
        evaluations=len(cases) + n_inc,
        distinct_nontrivial=len({c for c in cases if nontrivial(c)}) + len({l for l in inc_lines[0::2]}),
        rule="registry: every load sequence of length <=3 over 20 headers (module m with all 16 orderings of 0..3 of three "
             "revision dates, submodule m, module mm with/without revision) and of length 4%s over 7 headers, each followed by "
             "15 lookups (module/submodule x bare, three dates, empty date); random histories of 5..12 ops with interleaved "
             "lookups, odd names ('@' inside) and non-date revisions; file chooser: all subsets of 8 core file names as current "
             "directory / plain path element / dir/... element, every near-miss name alone and beside a candidate, as file and "
             "as directory, random nested layouts with 0..4 path elements (missing directories, files as directories, "
             "the root itself); include families: a generated module (groupings, uses, typedefs, identities with bases, "
             "identityref / typedef-typed leaves, augments, a duplicate name now and then) split at random over 1..3 "
             "submodules with nested includes vs. the unsplit module, both run through Process on the implementation "
             "(verdict, module tree with resolved types, identity value lists compared), a third of them typedef/identity-"
             "free and also run on the core model, half of the others with module-wide visibility of typedefs/identities "
             "(definitions in the module or a sibling, the user including nothing or something unrelated), plus all 25 include "
             "graphs over three submodules where each of the four parts names the typedefs and identities of all four; "
             "the current directory on the search path: 24 layouts (0/1/2 dated candidates, exact file, later directories) x "
             "spellings x positions x file-name / module-name lookups, Read histories of 1..4 steps; non-trivial = two headers of one kind and name / two entries sharing "
             "the stem / every include family"
             % ("" if tier == "quick" else " and 5"),
        mismatches=mism,
        distribution=dict(registry_cases=len(reg), findfile_cases=len(ff), rejected_adds=rej, findfile_results=outs, **stats),
        samples=[reg[len(reg) // 2], reg[-7], ff[100], ff[-3]],
        sample_observations=[go[len(reg) // 2], go[len(reg) - 7], go[len(reg) + 100], go[len(reg) + len(ff) - 3]],
    )
    assumptions = [
        "module names contain no '@' (YANG identifiers); registry cases with such names are only compared model-vs-implementation",
        "file system: every regular file is readable, names in a directory are distinct, ioutil.ReadDir returns entries sorted "
        "by name, no symbolic links; lookups by module name (no '/' and no .yang suffix) for the oracle",
        "regexp ^@\\d{4}-\\d{2}-\\d{2}\\.yang$ transcribed as a digit-pattern test; strings.HasPrefix/TrimPrefix/TrimSuffix, "
        "sort.Strings as modelled",
        "part (c): the Coq theorems cover direct includes on the core model (no typedefs/identities: C09, C11); nested "
        "includes, typedefs, identities and the final forest are covered by the split-vs-unsplit comparison on the "
        "implementation only (an implementation-side oracle for 'as if they were written there'); GROUPINGS: a submodule "
        "names only what it or a submodule it includes declares (RFC 6020 visibility); typedefs and identities: every "
        "part of a module sees those of the whole module (RFC 7950), submodules with no / an unrelated include included",
        "the current directory as a search-path element (spelled '.', './', './.', '../cwd', absolute, with '/...') and "
        "histories of Modules.Read on one Modules (the implicit '.' element) are compared model-vs-implementation "
        "(Model/File.v Read_all); every file of a history holds a module with a revision of its own",
    ]
    return cov, assumptions


def replay(rep, res):
    if rep.get("kind") == "include":
        go = lib.run_go([rep["split"], rep["unsplit"]])
        a, b = family_obs(go[0]), family_obs(go[1])
        for t in rep.get("texts", []):
            print(t)
        print("split  :", a["status"], a.get("errors", ""))
        print("unsplit:", b["status"], b.get("errors", ""))
        if a["status"] != b["status"]:
            return 1
        d = _first_diff(dict(tree=a.get("tree"), identities=a.get("identities")),
                        dict(tree=b.get("tree"), identities=b.get("identities")))
        print("first difference:", d)
        return 1 if d else 0
    if rep.get("kind") == "revisions":
        g = lib.run_go([rep["case"]])[0]
        e = rep["expect"]
        e = dict(e, derived={r: {k: set(v) for k, v in d.items()} for r, d in e["derived"].items()})
        why = check_revfam(g, e)
        print("impl :", g[:1500])
        print("wrong:", why)
        return 1 if why else 0
    if rep.get("kind") == "include-model":
        go = lib.run_go([rep["go_case"]])[0]
        ml = lib.run_ml([rep["case"]])[0]
        st, canon, _j = sg.canon_go(go)
        print("impl :", (canon or st)[:2000])
        print("model:", ml[:2000])
        return 0 if ((ml.split(" ")[0] == "err" and st in ("err", "loaderr")) or canon == ml) else 1
    c = rep["case"]
    go, ml = run_both([c])
    print("case :", c)
    print("impl :", go[0])
    print("model:", ml[0])
    if go[0] != canon_ml(ml[0]):
        return 1
    stats = dict(registry_outside_claim=0, findfile_outside_claim=0, dots_hits=0)
    judge(res, c, go[0], ml[0], stats)
    if rep.get("other"):
        cs = [c, rep["other"]]
        g2, _ = run_both(cs)
        st = dict(perm_groups=0, perm_pairs=0)
        metamorphic(res, cs, g2, st)
    return 1 if res.violations else 0
