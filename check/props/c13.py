"""C13 (a) module registry: add / FindModule lookups, (b) file chooser: findFile / findInDir.
Part (c) of the property (include = inline) is not covered here.

Every case is run on the implementation (harness/go/c13.go) and on the extracted model
(harness/ml/cmd_c13.ml); the model's line carries, after " | ", what the proved specification
(coq/Spec/C13.v) says about the case.  Three comparisons:
  tie     implementation line == model line                      (any difference: violation)
  oracle  implementation observation == specification            (difference: violation; for the file chooser a
          known finding when the case has exactly the shape of the listed dir/... defect -- the Coq guard of the
          _partial theorem.  D30, registry.norev-vs-rev, is fixed: a recurrence is a violation)
  metamorphic (implementation only) final bindings of all permutations of a header set with pairwise
          distinct (kind, name, revision) are equal."""
import itertools
import random
import shutil
import tempfile

import lib

D1, D2, D3 = "2019-12-31", "2020-01-01", "2021-06-15"


def hx(s):
    if isinstance(s, str):
        s = s.encode("latin-1")
    return lib.hexs(s)


# ------------------------------------------------------------------------------ registry

def add_op(kind, name, revs):
    return "a:%s:%s:%s" % (kind, hx(name), ",".join(hx(r) if r else "_" for r in revs) if revs else "-")


def find_op(kind, name, rev):
    return "f:%s:%s:%s" % (kind, hx(name), "n" if rev is None else ("r" + (hx(rev) if rev else "_")))


def rev_lists(dates):
    out = []
    for k in range(len(dates) + 1):
        for sub in itertools.combinations(dates, k):
            out += [list(p) for p in itertools.permutations(sub)]
    return out


def finds_for(names):
    out = []
    for kind, name in names:
        for rev in (None, D1, D2, D3, ""):
            out.append(find_op(kind, name, rev))
    return out


def gen_registry(tier, rnd):
    cases = []
    rich = [("m", "m", r) for r in rev_lists([D1, D2, D3])] + \
           [("s", "m", [D2]), ("s", "m", []), ("m", "mm", [D2]), ("m", "mm", [])]
    small = [("m", "m", []), ("m", "m", [D2]), ("m", "m", [D1, D3]), ("m", "m", [D3, D1]),
             ("m", "m", [D1]), ("s", "m", [D2]), ("m", "mm", [])]
    tail = finds_for([("m", "m"), ("s", "m"), ("m", "mm")])
    for n in range(0, 4):
        for seq in itertools.product(rich, repeat=n):
            cases.append(" ".join(["registry"] + [add_op(*h) for h in seq] + tail))
    for seq in itertools.product(small, repeat=4):
        cases.append(" ".join(["registry"] + [add_op(*h) for h in seq] + tail))
    if tier != "quick":
        for seq in itertools.product(small, repeat=5):
            cases.append(" ".join(["registry"] + [add_op(*h) for h in seq] + tail))
    # random longer histories, finds interleaved, odd names and revisions
    names = ["m", "mm", "m-x", "a.b", "M", "m@" + D2, "m@"]
    revs = [D1, D2, D3, "", "2020-1-01", "zzz", D2 + "x", "2020", "@", "2020-01-01@1"]
    for _ in range(1500 if tier == "quick" else 30000):
        odd = rnd.random() < 0.25
        ops = []
        for _ in range(rnd.randint(5, 12)):
            name = rnd.choice(names if odd else names[:4])
            kind = rnd.choice("mms")
            if rnd.random() < 0.7:
                k = rnd.choice([0, 0, 1, 1, 1, 2, 3])
                ops.append(add_op(kind, name, [rnd.choice(revs if odd else revs[:3]) for _ in range(k)]))
            else:
                ops.append(find_op(kind, name, rnd.choice([None, None] + revs[:5])))
        cases.append(" ".join(["registry"] + ops))
    return cases


def fields(line):
    d = {}
    for t in line.split():
        if "=" in t:
            k, v = t.split("=", 1)
            d[k] = v
    return d


def lst(v, sep=None):
    if v == "-":
        return []
    return list(v) if sep is None else v.split(sep)


def py_key(op):
    _, kind, name, revs = op.split(":")
    rs = [] if revs == "-" else [b"" if r == "_" else bytes.fromhex(r) for r in revs.split(",")]
    return kind, name, max(rs, default=b"")


# ---------------------------------------------------------------------------- file chooser

def tree_tok(entries):
    """entries: list of (name, None) for a file or (name, [children]) for a directory"""
    return "(" + ",".join(("F" + hx(n)) if c is None else ("D" + hx(n) + tree_tok(c)) for n, c in entries) + ")"


def comps_tok(comps):
    return "/".join(hx(c) for c in comps) if comps else "."


def ff_case(tree, cwd, path, name):
    p = ";".join(comps_tok(c) + ("+" if dots else "") for c, dots in path) if path else "-"
    return "findfile %s %s %s %s" % (tree_tok(tree), comps_tok(cwd), p, hx(name))


CORE = ["foo.yang", "foo@2020-01-01.yang", "foo@2019-12-31.yang", "foo@2021-06-15.yang",
        "foobar@2022-01-01.yang", "foo@2020-1-01.yang", "foo@2023-01-01.yang.bak", "foobar.yang"]
NEAR = CORE + ["foo.yang.bak", "fo.yang", "fo@2025-01-01.yang", "foo@2020-01-01.yan", "foo@20200101.yang",
               "foo@2020-01-0a.yang", "foo@@2020-01-01.yang", "foo@2020-01-01@2021-01-01.yang", "Foo.yang",
               "foo@2020-01-01.yang\n", "foo@\xd9\xa2020-01-01.yang", "foo@2030-01-01.yangx", "foo", "foo@",
               "xfoo.yang", "xfoo@2031-01-01.yang", "foo@2020-01-01", "foo@2020_01_01.yang", "foo@9999-99-99.yang",
               "foo@0000-00-00.yang", "foo-2032-01-01.yang", "foo@2020-01-01.yang.yang"]
DIRNAMES = ["a", "z", "foo", "g", "foo!", "foo-x", "foo0", "sub", "foo.yang", "foo@2024-01-01.yang"]


def rand_dir(rnd, depth, pool):
    ents, used = [], set()
    for _ in range(rnd.choice([0, 1, 1, 2, 3, 4])):
        n = rnd.choice(pool)
        if n not in used:
            used.add(n)
            ents.append((n, None))
    if depth > 0:
        for _ in range(rnd.choice([0, 0, 1, 1, 2, 3])):
            n = rnd.choice(DIRNAMES)
            if n not in used:
                used.add(n)
                ents.append((n, rand_dir(rnd, depth - 1, pool)))
    rnd.shuffle(ents)
    return ents


def gen_findfile(tier, rnd):
    cases = []
    # one directory, every subset of the core names, as ".", as a plain path element, as "dir/..."
    for mask in range(1 << len(CORE)):
        d = [(n, None) for i, n in enumerate(CORE) if mask >> i & 1]
        if mask % 3 == 0:
            d = d + [("foo.yang" if not mask & 1 else "zz", [("foo@2029-01-01.yang", None)])]
        other = [("foo@2000-01-01.yang", None)]
        cases.append(ff_case([("cwd", d), ("p0", other)], ["cwd"], [(["p0"], False)], "foo"))
        cases.append(ff_case([("cwd", []), ("p0", d), ("p1", other)], ["cwd"], [(["p0"], False), (["p1"], False)], "foo"))
        cases.append(ff_case([("cwd", []), ("p0", d), ("p1", other)], ["cwd"], [(["p0"], True), (["p1"], True)], "foo"))
    # every single near-miss name next to / instead of a real candidate
    for n in NEAR + DIRNAMES:
        for extra in ([], ["foo@2010-01-01.yang"]):
            for as_dir in (False, True):
                d = [(n, [("foo.yang", None)] if as_dir else None)] + [(e, None) for e in extra if e != n]
                for dots in (False, True):
                    cases.append(ff_case([("cwd", []), ("p0", d)], ["cwd"], [(["p0"], dots)], "foo"))
                cases.append(ff_case([("cwd", d)], ["cwd"], [], "foo"))
    # random nested layouts
    lookups = ["foo"] * 12 + ["foobar", "fo", "foo@2020-01-01", "foo.yang", "foo@2020-01-01.yang", "zz"]
    for _ in range(4000 if tier == "quick" else 60000):
        pool = CORE if rnd.random() < 0.5 else NEAR
        tree = [("cwd", rand_dir(rnd, 1, pool) if rnd.random() < 0.3 else [])]
        for i in range(rnd.randint(1, 3)):
            tree.append(("p%d" % i, rand_dir(rnd, rnd.choice([0, 1, 2, 3]), pool)))
        path = []
        for _ in range(rnd.randint(0, 4)):
            base = [rnd.choice(["p0", "p1", "p2", "nonexist", "cwd"])]
            r = rnd.random()
            if r < 0.15:
                base.append(rnd.choice(DIRNAMES))
            elif r < 0.2:
                base = []
            path.append((base, rnd.random() < 0.5))
        cwd = ["cwd"] if rnd.random() < 0.85 else ["p0"]
        cases.append(ff_case(tree, cwd, path, rnd.choice(lookups)))
    return cases


# ------------------------------------------------------------------------------------ run

def canon_ml(m):
    return m.split(" | ")[0]


def in_claim_name(name_hex):
    n = bytes.fromhex(name_hex) if name_hex != "-" else b""
    return b"/" not in n and not n.endswith(b".yang")


def judge(res, c, g, m, stats):
    """oracle step for one case; the tie has already been checked"""
    spec = fields(m.split(" | ", 1)[1]) if " | " in m else {}
    t = c.split()
    if t[0] == "registry":
        if spec.get("names_ok") != "1":
            stats["registry_outside_claim"] += 1
            return
        go = fields(g)
        if go.get("v", "-") != spec["sv"]:
            res.violation("registry verdicts differ from the specification: %s impl=%s spec=%s" %
                          (c[:300], go.get("v"), spec["sv"]), dict(kind="oracle", case=c, impl=g, model=m))
            return
        if lst(go.get("f", "-"), ",") != lst(spec["sf"], ","):
            res.violation("registry lookup differs from the specification: %s impl=%s spec=%s" %
                          (c[:300], go.get("f"), spec["sf"]), dict(kind="oracle", case=c, impl=g, model=m))
    elif t[0] == "findfile":
        if not in_claim_name(t[4]):
            stats["findfile_outside_claim"] += 1
            return
        if g != spec.get("spec"):
            if spec.get("nested") == "1":
                stats["dots_hits"] += 1
                res.known("findfile.dots-subdir-first", c)
            else:
                res.violation("file chooser differs from the specification: %s impl=%s spec=%s" %
                              (c[:300], g, spec.get("spec")), dict(kind="oracle", case=c, impl=g, model=m))


def metamorphic(res, cases, go, stats):
    """bindings after every permutation of a distinct-key header set are the same"""
    groups = {}
    for c, g in zip(cases, go):
        t = c.split()
        if t[0] != "registry":
            continue
        adds = [x for x in t[1:] if x.startswith("a:")]
        if len(adds) < 2 or any(x.startswith("f:") for x in t[1:1 + len(adds)]):
            continue
        keys = [py_key(a) for a in adds]
        if len(set(keys)) != len(keys) or any(b"@" in bytes.fromhex(k[1]) for k in keys):
            continue
        f = fields(g)
        ids = [i for i, x in enumerate(t[1:]) if x.startswith("a:")]
        name_of = {str(i): t[1 + i] for i in ids}
        bind = tuple(tuple(sorted((kv.split(":")[0], name_of.get(kv.split(":")[1], "?")) for kv in lst(f.get(k, "-"), ",")))
                     for k in ("M", "S"))
        groups.setdefault(frozenset(adds), []).append((c, bind))
    for s, l in groups.items():
        stats["perm_groups"] += 1 if len(l) > 1 else 0
        for c, b in l[1:]:
            stats["perm_pairs"] += 1
            if b != l[0][1]:
                res.violation("final bindings depend on the load order: %s vs %s" % (l[0][0][:200], c[:200]),
                              dict(kind="metamorphic", case=c, other=l[0][0]))
                return


def run_both(cases):
    tmp = tempfile.mkdtemp(prefix="c13cwd")
    try:
        go = lib.run_go(cases, cwd=tmp)
    finally:
        shutil.rmtree(tmp, ignore_errors=True)
    return go, lib.run_ml(cases)


def run(res, tier, seed, proof):
    rnd = random.Random(seed)
    reg = gen_registry(tier, rnd)
    ff = gen_findfile(tier, rnd)
    cases = reg + ff
    go, ml = run_both(cases)
    stats = dict(registry_outside_claim=0, findfile_outside_claim=0, dots_hits=0, perm_groups=0, perm_pairs=0)
    mism = 0
    for c, g, m in zip(cases, go, ml):
        if g != canon_ml(m):
            mism += 1
            if mism <= 3:
                res.violation("model-vs-implementation disagree on case: %s  impl=%s model=%s" % (c[:300], g[:300], m[:300]),
                              dict(kind="correspondence", case=c, impl=g, model=m))
            continue
        judge(res, c, g, m, stats)
    metamorphic(res, cases, go, stats)

    def nontrivial(c):
        t = c.split()
        if t[0] == "registry":
            adds = [x.split(":") for x in t[1:] if x.startswith("a:")]
            return len(adds) >= 2 and len({(a[1], a[2]) for a in adds}) < len(adds)
        return c.count("666f6f") >= 2      # at least two entries whose name starts with the stem

    outs = {}
    for c, g in zip(ff, go[len(reg):]):
        k = "none" if g == "-" else ("name.yang" if g.endswith(hx("foo.yang")) else "dated")
        outs[k] = outs.get(k, 0) + 1
    rej = sum(g.split()[0].count("0") for g in go[:len(reg)] if g.startswith("v="))
    cov = dict(
        evaluations=len(cases), distinct_nontrivial=len({c for c in cases if nontrivial(c)}),
        rule="registry: every load sequence of length <=3 over 20 headers (module m with all 16 orderings of 0..3 of three "
             "revision dates, submodule m, module mm with/without revision) and of length 4%s over 7 headers, each followed by "
             "15 lookups (module/submodule x bare, three dates, empty date); random histories of 5..12 ops with interleaved "
             "lookups, odd names ('@' inside) and non-date revisions; file chooser: all subsets of 8 core file names as current "
             "directory / plain path element / dir/... element, every near-miss name alone and beside a candidate, as file and "
             "as directory, random nested layouts with 0..4 path elements (missing directories, files as directories, "
             "the root itself); non-trivial = two headers of one kind and name / two entries sharing the stem"
             % ("" if tier == "quick" else " and 5"),
        mismatches=mism,
        distribution=dict(registry_cases=len(reg), findfile_cases=len(ff), rejected_adds=rej, findfile_results=outs, **stats),
        samples=[reg[len(reg) // 2], reg[-7], ff[100], ff[-3]],
        sample_observations=[go[len(reg) // 2], go[len(reg) - 7], go[len(reg) + 100], go[-3]],
    )
    assumptions = [
        "module names contain no '@' (YANG identifiers); registry cases with such names are only compared model-vs-implementation",
        "file system: every regular file is readable, names in a directory are distinct, ioutil.ReadDir returns entries sorted "
        "by name, no symbolic links; lookups by module name (no '/' and no .yang suffix) for the oracle",
        "regexp ^@\\d{4}-\\d{2}-\\d{2}\\.yang$ transcribed as a digit-pattern test; strings.HasPrefix/TrimPrefix/TrimSuffix, "
        "sort.Strings as modelled",
        "part (c) of C13 (include = inline) is not covered by this check",
    ]
    return cov, assumptions


def replay(rep, res):
    c = rep["case"]
    go, ml = run_both([c])
    print("case :", c)
    print("impl :", go[0])
    print("model:", ml[0])
    if go[0] != canon_ml(ml[0]):
        return 1
    stats = dict(registry_outside_claim=0, findfile_outside_claim=0, dots_hits=0)
    judge(res, c, go[0], ml[0], stats)
    if rep.get("other"):
        cs = [c, rep["other"]]
        g2, _ = run_both(cs)
        st = dict(perm_groups=0, perm_pairs=0)
        metamorphic(res, cs, g2, st)
    return 1 if res.violations else 0
