"""Shared machinery of the checks: builds, proof step, runners, findings, evidence."""
import fcntl
import glob
import hashlib
import json
import os
import re
import subprocess
import sys
import time
from concurrent.futures import ThreadPoolExecutor

VERIF = os.path.dirname(os.path.dirname(os.path.abspath(__file__)))
REPO = os.environ.get("VERIF_REPO", "/repo")
COQ = os.path.join(VERIF, "coq")
HGO = os.path.join(VERIF, "harness", "go")
HML = os.path.join(VERIF, "harness", "ml")
# development aid while several properties are being built at once: VERIF_PARTS="parse,num" restricts the
# extraction (coq/Extract/parts/<p>.ext + harness/ml/cmd_<p>.ml) and the model build to those parts, so that a
# half-written file of another property cannot break this one.  Unset = everything (the registered checks).
PARTS = [x for x in os.environ.get("VERIF_PARTS", "").split(",") if x]
SUFFIX = ("-" + "-".join(PARTS)) if PARTS else ""
DRIVER = os.path.join(HML, "driver" + SUFFIX)
EVID = os.path.join(VERIF, "evidence")
WORK = os.path.join(VERIF, ".work")
NCPU = os.cpu_count() or 4

GOENV = dict(os.environ, GOFLAGS="-mod=mod", GOPROXY="off", GOSUMDB="off",
             GOTOOLCHAIN="local", CGO_ENABLED="0")

ALLOWED_AXIOMS = {
    # standard-library axioms that may appear (named in DESIGN.md section 6)
    "functional_extensionality_dep", "proof_irrelevance", "JMeq_eq", "eq_rect_eq",
    "Eqdep.Eq_rect_eq.eq_rect_eq", "classic", "propositional_extensionality",
}

FORBIDDEN = re.compile(
    r"\b(Admitted|admit|Axiom|Axioms|Parameter|Parameters|Conjecture|Conjectures|"
    r"Abort All|bypass_check|Admit Obligations)\b|Unset\s+Guard|Unset\s+Positivity|"
    r"Unset\s+Universe\s+Checking|type-in-type|impredicative-set|native_compute")


def log(*a):
    print(*a, file=sys.stderr, flush=True)


def sh(cmd, cwd=None, env=None, timeout=None, inp=None):
    """run, return (rc, stdout+stderr)"""
    try:
        p = subprocess.run(cmd, cwd=cwd, env=env, timeout=timeout, input=inp,
                           stdout=subprocess.PIPE, stderr=subprocess.STDOUT,
                           shell=isinstance(cmd, str), text=True)
        return p.returncode, p.stdout
    except subprocess.TimeoutExpired as e:
        return 124, (e.stdout or "") + "\nTIMEOUT"


class BuildLock:
    def __enter__(self):
        os.makedirs(WORK, exist_ok=True)
        self.f = open(os.path.join(WORK, "build.lock"), "w")
        fcntl.flock(self.f, fcntl.LOCK_EX)
        return self

    def __exit__(self, *a):
        fcntl.flock(self.f, fcntl.LOCK_UN)
        self.f.close()


# ----------------------------------------------------------------------------- builds

def write_if_changed(path, content):
    try:
        if open(path).read() == content:
            return False
    except FileNotFoundError:
        pass
    os.makedirs(os.path.dirname(path), exist_ok=True)
    with open(path, "w") as f:
        f.write(content)
    return True


def build_go():
    """(re)build the Go harness from /repo's current working tree, hooks on."""
    write_if_changed(os.path.join(HGO, "go.sum"), open(os.path.join(REPO, "go.sum")).read())
    gm = open(os.path.join(HGO, "go.mod")).read()
    write_if_changed(os.path.join(HGO, "go.mod"),
                     re.sub(r"(replace github.com/openconfig/goyang => ).*", r"\g<1>" + REPO, gm))
    rc, out = sh(["go", "build", "-tags", "verif", "-o", "harness", "."], cwd=HGO, env=GOENV,
                 timeout=600)
    if rc != 0:
        return False, out
    return True, out


def regen_tables():
    """run the translator: /repo sources -> coq/Gen/*.v (replace only when different)."""
    gen_dir = os.path.join(COQ, "Gen")
    os.makedirs(gen_dir, exist_ok=True)
    tmp = os.path.join(WORK, "gen_out")
    os.makedirs(tmp, exist_ok=True)
    for f in glob.glob(os.path.join(tmp, "*.v")):
        os.remove(f)
    try:
        os.remove(os.path.join(tmp, "FAILED.txt"))
    except OSError:
        pass
    rc, out = sh([os.path.join(HGO, "harness"), "gen", REPO, tmp], timeout=120)
    if rc != 0:
        return False, out
    FAILED_TABLES.clear()
    if os.path.exists(os.path.join(tmp, "FAILED.txt")):
        for line in open(os.path.join(tmp, "FAILED.txt")):
            fn, _, err = line.strip().partition("\t")
            # main.genLocks -> Locks.v ; main.genYangSchema -> YangSchema.v
            FAILED_TABLES[re.sub(r"^.*\.gen", "", fn) + ".v"] = err
    changed = []
    for f in sorted(glob.glob(os.path.join(tmp, "*.v"))):
        if write_if_changed(os.path.join(gen_dir, os.path.basename(f)), open(f).read()):
            changed.append(os.path.basename(f))
    return True, "changed: %s" % changed


FAILED_TABLES = {}      # table file name -> translator error, filled by regen_tables


def coq_requires(relpath, seen=None):
    """transitive closure of the GY modules a Coq file requires (textual scan)"""
    seen = seen if seen is not None else set()
    if relpath in seen:
        return seen
    seen.add(relpath)
    try:
        src = strip_comments(open(os.path.join(COQ, relpath)).read())
    except OSError:
        return seen
    for stmt in re.findall(r"(?:From\s+GY\s+)?Require\s+(?:Import\s+|Export\s+)?([^.]*(?:\.[A-Za-z_][^.]*)*)\.\s", src):
        for tok in stmt.split():
            tok = tok.replace("GY.", "")
            m = re.match(r"^(Base|Gen|Model|Spec|Proofs|Properties)\.([A-Za-z0-9_]+)$", tok)
            if m:
                coq_requires("%s/%s.v" % (m.group(1), m.group(2)), seen)
    return seen


def tables_needed(pid):
    return {os.path.basename(f) for f in coq_requires("Properties/%s.v" % pid) if f.startswith("Gen/")}


def coq_files():
    fs = []
    for d in ("Base", "Gen", "Model", "Spec", "Proofs", "Properties"):
        fs += sorted(glob.glob(os.path.join(COQ, d, "*.v")))
    return [os.path.relpath(f, COQ) for f in fs]


def coq_makefile():
    proj = "-Q . GY\n-arg -w -arg -notation-overridden,-deprecated-hint-without-locality," \
           "-deprecated-instance-without-locality,-deprecated-syntactic-definition\n" + "\n".join(coq_files()) + "\n"
    ch = write_if_changed(os.path.join(COQ, "_CoqProject"), proj)
    if ch or not os.path.exists(os.path.join(COQ, "Makefile.coq")):
        rc, out = sh(["coq_makefile", "-f", "_CoqProject", "-o", "Makefile.coq"], cwd=COQ)
        if rc != 0:
            raise RuntimeError(out)


def coq_make(targets, timeout=3000):
    coq_makefile()
    rc, out = sh(["make", "-f", "Makefile.coq", "-j%d" % NCPU] + targets, cwd=COQ, timeout=timeout)
    return rc == 0, out


def newest(paths):
    m = 0
    for p in paths:
        try:
            m = max(m, os.path.getmtime(p))
        except OSError:
            pass
    return m


def build_ml(force=False):
    """extract the models (Separate Extraction) and build the OCaml driver when stale."""
    drv = DRIVER
    ext = write_extract_v()
    srcs = glob.glob(os.path.join(COQ, "Model", "*.vo")) + glob.glob(os.path.join(COQ, "Spec", "*.vo")) + \
        glob.glob(os.path.join(COQ, "Gen", "*.vo")) + glob.glob(os.path.join(COQ, "Base", "*.vo")) + \
        [ext, os.path.join(HML, "build.sh")] + glob.glob(os.path.join(HML, "*.ml"))
    if not force and os.path.exists(drv) and os.path.getmtime(drv) >= newest(srcs):
        return True, "up to date"
    gen = os.path.join(HML, "gen" + SUFFIX)
    os.makedirs(gen, exist_ok=True)
    for f in glob.glob(os.path.join(gen, "*")):
        os.remove(f)
    rc, out = sh(["coqc", "-Q", COQ, "GY", "-w", "-all", ext],
                 cwd=gen, timeout=600)
    if rc != 0:
        return False, out
    rc, out = sh(["sh", os.path.join(HML, "build.sh"), SUFFIX] + PARTS, timeout=900)
    return rc == 0, out


def ext_parts():
    fs = sorted(glob.glob(os.path.join(COQ, "Extract", "parts", "*.ext")))
    if PARTS:
        fs = [f for f in fs if os.path.basename(f)[:-4] in PARTS or os.path.basename(f).startswith("00_")]
    return fs


def write_extract_v():
    """assemble Extract.v from coq/Extract/parts/*.ext ('require:' and 'roots:' lines)"""
    req, roots = [], []
    for f in ext_parts():
        for line in open(f):
            line = line.strip()
            if line.startswith("require:"):
                req += [x for x in line[8:].split() if x not in req]
            elif line.startswith("roots:"):
                roots += [x for x in line[6:].split() if x not in roots]
    body = ("(* generated from Extract/parts/*.ext.  ExtrOcamlBasic only: bool/option/unit/list/prod/sumbool map to\n"
            "   OCaml's; N, Z, positive, nat stay Coq datatypes.  No Extract Constant. *)\n"
            "From Coq Require Import List NArith ZArith Bool.\nFrom Coq Require Extraction ExtrOcamlBasic.\n"
            "From GY Require Import %s.\nExtraction Language OCaml.\nSeparate Extraction\n  %s.\n"
            % (" ".join(req), "\n  ".join(roots)))
    p = os.path.join(WORK, "Extract%s.v" % SUFFIX.replace("-", "_"))
    write_if_changed(p, body)
    return p


def model_vos():
    """targets the extraction needs"""
    if PARTS:
        t = []
        for f in ext_parts():
            for line in open(f):
                if line.startswith("require:"):
                    t += [x.replace(".", "/") + ".vo" for x in line[8:].split()]
        return sorted(set(t))
    t = []
    for d in ("Base", "Gen", "Model", "Spec"):
        t += [os.path.relpath(f, COQ) + "o" for f in sorted(glob.glob(os.path.join(COQ, d, "*.v")))]
    return t


# ------------------------------------------------------------------------- proof step

def strip_comments(s):
    out, depth, i = [], 0, 0
    while i < len(s):
        if s.startswith("(*", i):
            depth += 1
            i += 2
        elif s.startswith("*)", i) and depth > 0:
            depth -= 1
            i += 2
        else:
            if depth == 0:
                out.append(s[i])
            i += 1
    return "".join(out)


def grep_gate():
    bad = []
    for f in glob.glob(os.path.join(COQ, "**", "*.v"), recursive=True):
        if "/.assume" in f:
            continue
        txt = strip_comments(open(f).read())
        for m in FORBIDDEN.finditer(txt):
            bad.append("%s: %s" % (os.path.relpath(f, COQ), m.group(0)))
    # a Variable/Hypothesis outside a section declares an axiom: every file that uses them
    # must use them inside Section ... End (checked by Print Assumptions anyway)
    return bad


def theorems_of(pid):
    src = open(os.path.join(COQ, "Properties", pid + ".v")).read()
    src = strip_comments(src)
    return re.findall(r"^\s*(?:Theorem|Corollary)\s+([A-Za-z0-9_']+)", src, re.M)


def proof_step(pid, thorough=False):
    """returns dict(obligations, discharged, failed:[...], axioms:{thm:[..]}, log)"""
    res = dict(obligations=0, discharged=0, failed=[], axioms={}, log="", theorems=[])
    thms = theorems_of(pid)
    res["theorems"] = thms
    res["obligations"] = len(thms)
    ok, out = coq_make(["Properties/%s.vo" % pid])
    res["log"] = out[-4000:]
    if not ok:
        # which file broke?
        m = re.findall(r'File "\./([^"]+)", line (\d+)', out)
        res["failed"] = ["coq build failed at %s:%s" % (f, l) for f, l in m[-3:]] or ["coq build failed"]
        return res
    gate = grep_gate()
    if gate:
        res["failed"] = ["forbidden construct: " + g for g in gate]
        return res
    adir = os.path.join(COQ, ".assume")
    os.makedirs(adir, exist_ok=True)
    af = os.path.join(adir, "A_%s.v" % pid)
    body = "From GY Require Import Properties.%s.\n" % pid
    for t in thms:
        body += 'Goal True. idtac "@@@ %s". Abort.\nPrint Assumptions %s.\n' % (t, t)
    open(af, "w").write(body)
    rc, out = sh(["coqc", "-Q", COQ, "GY", af], cwd=adir, timeout=900)
    if rc != 0:
        res["failed"] = ["Print Assumptions failed: " + out[-500:]]
        return res
    cur = None
    for line in out.splitlines():
        if line.startswith("@@@ "):
            cur = line[4:].strip()
            res["axioms"][cur] = []
        elif cur and line.strip() and not line.startswith("Closed under") and not line.startswith("Axioms:"):
            m = re.match(r"^([A-Za-z0-9_.']+)\s*:", line)
            if m:
                res["axioms"][cur].append(m.group(1))
    for t in thms:
        ax = res["axioms"].get(t)
        if ax is None:
            res["failed"].append("no Print Assumptions output for " + t)
        elif any(a.split(".")[-1] not in ALLOWED_AXIOMS and a not in ALLOWED_AXIOMS for a in ax):
            res["failed"].append("theorem %s depends on undeclared axiom(s) %s" % (t, ax))
        else:
            res["discharged"] += 1
    if thorough:
        rc, out = sh(["coqchk", "-silent", "-o", "-Q", COQ, "GY", "GY.Properties.%s" % pid],
                     cwd=COQ, timeout=3000)
        res["coqchk"] = out[-3000:]
        if rc != 0:
            res["failed"].append("coqchk failed")
    return res


# ---------------------------------------------------------------------------- runners

STALL_S = int(os.environ.get("VERIF_STALL_S", "45"))      # a child that prints nothing for this long is killed
CHILD_AS_BYTES = int(os.environ.get("VERIF_CHILD_AS_GB", "6")) << 30


def _limit_child():
    import resource
    try:
        resource.setrlimit(resource.RLIMIT_AS, (CHILD_AS_BYTES, CHILD_AS_BYTES))
    except Exception:
        pass


def _run_shard(cmd, lines, cwd=None, timeout=3000):
    """run one child on its share of the cases.  The child is killed when it produces no output for STALL_S
    seconds (a hang) or exceeds [timeout]; its address space is capped (a runaway allocation dies instead of
    taking the machine down).  Returns (rc, output lines so far, stderr tail)."""
    import selectors
    import tempfile
    import threading
    data = ("\n".join(lines) + "\n").encode()
    errf = tempfile.TemporaryFile()
    p = subprocess.Popen(cmd, stdin=subprocess.PIPE, stdout=subprocess.PIPE, stderr=errf, cwd=cwd,
                         preexec_fn=_limit_child)

    def feed():
        try:
            p.stdin.write(data)
            p.stdin.close()
        except Exception:
            pass
    threading.Thread(target=feed, daemon=True).start()
    sel = selectors.DefaultSelector()
    sel.register(p.stdout, selectors.EVENT_READ)
    chunks, t0, last, why = [], time.time(), time.time(), ""
    while True:
        ev = sel.select(timeout=1.0)
        now = time.time()
        if ev:
            b = os.read(p.stdout.fileno(), 1 << 20)
            if not b:
                break
            chunks.append(b)
            last = now
        elif now - last > STALL_S:
            why = "TIMEOUT: no output for %d s" % STALL_S
            p.kill()
            break
        if now - t0 > timeout:
            why = "TIMEOUT: shard exceeded %d s" % timeout
            p.kill()
            break
    try:
        p.wait(timeout=10)
    except Exception:
        p.kill()
    out = b"".join(chunks).decode("utf-8", "replace").split("\n")
    if out and out[-1] == "":
        out.pop()
    elif out and why:
        out.pop()          # a partial last line
    errf.seek(0)
    err = errf.read()[-4000:].decode("utf-8", "replace")
    errf.close()
    if why:
        err = (err + "\n" + why).strip()
    return (p.returncode if p.returncode is not None else -9), out, err


def _run_part(cmd, part, cwd, timeout, restarts=3):
    """one shard: when the child dies or stalls at some case, that case is marked and a fresh child goes on with
    the rest (at most [restarts] times; what is left then is marked NOT-RUN)."""
    out, rest = [], part
    for attempt in range(restarts + 1):
        rc, o, err = _run_shard(cmd, rest, cwd, timeout)
        if len(o) >= len(rest):
            return out + o[:len(rest)]
        tail = err.strip().splitlines()[-1:] if err.strip() else ["rc=%d" % rc]
        kind = "TIMEOUT:" if any("TIMEOUT" in t for t in tail) else "CRASH:"
        out += o + [kind + " ".join(tail)]
        rest = rest[len(o) + 1:]
        if not rest:
            return out
    return out + ["NOT-RUN"] * len(rest)


def run_sharded(cmd, lines, cwd=None, shards=None, timeout=3000):
    """feed case lines to `cmd` in parallel shards; returns list of output lines (same order).
    A case at which a child dies yields 'CRASH:<stderr tail>', one at which it hangs 'TIMEOUT:...'."""
    if not lines:
        return []
    shards = shards or min(NCPU, max(1, len(lines) // 50))
    size = (len(lines) + shards - 1) // shards
    parts = [lines[i:i + size] for i in range(0, len(lines), size)]
    with ThreadPoolExecutor(max_workers=NCPU) as ex:
        rs = list(ex.map(lambda part: _run_part(cmd, part, cwd, timeout), parts))
    out = []
    for r in rs:
        out += r
    return out


_GO_SAMPLE = []          # a sample of the case lines given to the implementation (for the coverage evidence)


def run_go(lines, **kw):
    if len(_GO_SAMPLE) < 40000:
        step = max(1, len(lines) // 8000)
        _GO_SAMPLE.extend(lines[::step])
    return run_sharded([os.path.join(HGO, "harness"), "run"], lines, **kw)


def anchor_files(pid):
    try:
        for l in open(os.path.join(VERIF, "properties.jsonl")):
            p = json.loads(l)
            if p["id"] == pid:
                return tuple(os.path.basename(f) for f in p["anchors"].get("files", []))
    except Exception:
        pass
    return ()


def run_ml(lines, **kw):
    return run_sharded([DRIVER], lines, **kw)


# --------------------------------------------------------------------------- findings

def load_findings():
    known, fixed = [], []
    p = os.path.join(VERIF, "KNOWN_FINDINGS.txt")
    if not os.path.exists(p):
        return known, fixed
    for line in open(p):
        line = line.strip()
        if line.startswith("known:"):
            m = re.match(r"known:\s+property=(\S+)\s+sig=(\S+)\s+(.*)", line)
            if m:
                known.append(dict(property=m.group(1), sig=m.group(2), what=m.group(3)))
        elif line.startswith("fixed:"):
            fixed.append(line)
    return known, fixed


# ----------------------------------------------------------------------------- result

class Result:
    def __init__(self, pid, tier, seed):
        self.pid, self.tier, self.seed = pid, tier, seed
        self.t0 = time.time()
        self.violations = []      # (what, replay dict)
        self.known_hits = {}      # sig -> example
        self.coverage = {}
        self.assumptions = []

    def violation(self, what, replay, no_input=False):
        self.violations.append((what, replay, no_input))

    def known(self, sig, example):
        self.known_hits.setdefault(sig, example)

    def finish(self, proof, coverage, assumptions):
        os.makedirs(os.path.join(EVID, "replay"), exist_ok=True)
        known, _ = load_findings()
        known_sigs = {k["sig"]: k for k in known if k["property"] == self.pid}
        for sig, ex in self.known_hits.items():
            k = known_sigs.get(sig)
            print("KNOWN-FINDING: property=%s sig=%s %s [e.g. %s]" %
                  (self.pid, sig, k["what"] if k else "", str(ex)[:200]))
        if proof["failed"]:
            # proof obligation broken: if the correspondence found no failing input, say so
            if not [v for v in self.violations if not v[2]]:
                self.violation("proof obligation no longer checks: " + "; ".join(proof["failed"]),
                               dict(kind="proof", failed=proof["failed"], log=proof["log"][-2000:]),
                               no_input=True)
        cov = dict(obligations=proof["obligations"], discharged=proof["discharged"],
                   checker_cmd="make -f Makefile.coq Properties/%s.vo && coqc .assume/A_%s.v (Print Assumptions)%s" %
                   (self.pid, self.pid, " && coqchk -silent -o GY.Properties.%s" % self.pid if self.tier == "thorough" else ""),
                   trusted_base=TRUSTED_BASE, theorems=proof["theorems"], axioms=proof["axioms"])
        cov.update(coverage)
        if (self.tier == "thorough" or os.environ.get("VERIF_COVER")) and _GO_SAMPLE and "go_statement_coverage" not in cov:
            try:
                cov["go_statement_coverage"] = go_coverage(_GO_SAMPLE, files=anchor_files(self.pid))
            except Exception as e:          # evidence only
                cov["go_statement_coverage"] = dict(error=str(e)[:200])
        ev = dict(property_id=self.pid, tier=self.tier, seed=self.seed, level="proof", coverage=cov,
                  assumptions=assumptions, wall_s=round(time.time() - self.t0, 2),
                  violations=len(self.violations),
                  known_findings=sorted(self.known_hits))
        with open(os.path.join(EVID, self.pid + ".json"), "w") as f:
            json.dump(ev, f, indent=1, sort_keys=True)
        if not self.violations:
            print("OK property=%s tier=%s obligations=%d discharged=%d evaluations=%s wall=%.1fs" %
                  (self.pid, self.tier, proof["obligations"], proof["discharged"],
                   cov.get("evaluations"), time.time() - self.t0))
            return 0
        # real failing inputs first
        self.violations.sort(key=lambda v: v[2])
        seen = 0
        for what, replay, no_input in self.violations[:5]:
            h = hashlib.sha1(json.dumps(replay, sort_keys=True).encode()).hexdigest()[:10]
            path = os.path.join(EVID, "replay", "%s-%s.json" % (self.pid, h))
            replay = dict(replay, property=self.pid, what=what)
            with open(path, "w") as f:
                json.dump(replay, f, indent=1, sort_keys=True)
            print("VIOLATION property=%s replay=%s%s" % (self.pid, path, " no-failing-input-found" if no_input else ""))
            log("  " + what[:300])
            seen += 1
        return 1


TRUSTED_BASE = [
    "Coq 8.16.1 kernel (vm_compute used for finite obligations; no native_compute)",
    "translator harness/go/gen.go (go/ast): struct tags, constants, lock table -> coq/Gen/*.v",
    "extraction: ExtrOcamlBasic only (bool, option, unit, list, prod, sumbool -> OCaml; N/Z/positive/nat stay Coq datatypes), OCaml 4.13.1, harness/ml/driver.ml",
    "correspondence check: harness/go (Go toolchain), check/*.py generators and differ",
    "modelled, not verified: Go standard library functions named in DESIGN.md section 3",
]


def prepare(pid, need_ml=True, extra_targets=()):
    """regenerate, rebuild; returns (ok, message). Runs under the build lock."""
    with BuildLock():
        ok, out = build_go()
        if not ok:
            return False, "go harness build failed:\n" + out[-3000:]
        ok, out = regen_tables()
        if not ok:
            return False, "translator failed:\n" + out[-3000:]
        broken = {t: e for t, e in FAILED_TABLES.items() if t in tables_needed(pid)}
        if broken:
            return False, "translator could not regenerate a table this property depends on: %s" % broken
        if FAILED_TABLES:
            log("note: translator failed for %s (not needed by %s; the old table stays in place)" % (sorted(FAILED_TABLES), pid))
        if need_ml:
            ok, out = coq_make(model_vos())
            if not ok:
                return False, "model build failed:\n" + out[-3000:]
            ok, out = build_ml()
            if not ok:
                return False, "ocaml driver build failed:\n" + out[-3000:]
    return True, ""


def diff_cases(res, cases, known_sig=None, canon=None, max_report=3, corr_name="model-vs-implementation"):
    """Functional correspondence: the implementation and the (proved) model must print the same
    observation for every case line.  known_sig(case, go, ml) -> signature or None."""
    go = run_go(cases)
    ml = run_ml(cases)
    mism = 0
    for c, g, m in zip(cases, go, ml):
        g2, m2 = (canon(g), canon(m)) if canon else (g, m)
        if g2 != m2:
            sig = known_sig(c, g, m) if known_sig else None
            if sig:
                res.known(sig, c)
                continue
            mism += 1
            if mism <= max_report:
                res.violation("%s disagree on case: %s  impl=%s model=%s" % (corr_name, c[:300], g[:300], m[:300]),
                              dict(kind="correspondence", case=c, impl=g, model=m))
    return go, ml, mism


def hexs(b):
    return b.hex() if b else "-"


def go_coverage(lines, files=(), max_lines=20000, cwd=None):
    """Statement coverage of /repo's packages achieved by running the Go harness on [lines] (a sample of the cases a
    check ran): builds an instrumented harness (-cover), runs it once, returns {"total": pct, "functions": {name: pct}}
    restricted to functions in [files] (base names such as "lex.go").  Evidence only; never decides anything."""
    import shutil
    import tempfile
    exe = os.path.join(WORK, "harness_cover")
    rc, out = sh(["go", "build", "-tags", "verif", "-cover", "-coverpkg=github.com/openconfig/goyang/...,verifharness",
                  "-o", exe, "."], cwd=HGO, env=GOENV, timeout=900)
    if rc != 0:
        return dict(error=out[-300:])
    d = tempfile.mkdtemp(prefix="gocov")
    try:
        lines = lines[:max_lines]
        subprocess.run([exe, "run"], input="\n".join(lines) + "\n", text=True, cwd=cwd, timeout=1800,
                       stdout=subprocess.DEVNULL, stderr=subprocess.DEVNULL, env=dict(os.environ, GOCOVERDIR=d))
        rc, out = sh(["go", "tool", "covdata", "func", "-i=" + d], env=GOENV, timeout=300)
        funcs, tot = {}, None
        for l in out.splitlines():
            m = re.match(r"^github\.com/openconfig/goyang/(pkg/\w+/)?(\w+\.go):\d+:\s+(\S+)\s+([\d.]+)%", l)
            if m and (not files or m.group(2) in files) and "verif_hooks" not in m.group(2):
                funcs[m.group(2) + ":" + m.group(3)] = float(m.group(4))
        vals = list(funcs.values())
        return dict(functions=funcs, mean_function_pct=round(sum(vals) / len(vals), 1) if vals else None,
                    functions_fully_covered=sum(1 for v in vals if v == 100.0), functions_seen=len(vals),
                    sample_lines=len(lines))
    finally:
        shutil.rmtree(d, ignore_errors=True)
