#!/usr/bin/env python3
"""Assemble /verif/MANIFEST.json from check/manifest.d/_base.json and one Cxx.json fragment per claimed property.
Properties without a fragment are listed under not_applicable with the reason in check/manifest.d/_not_claimed.json."""
import glob
import json
import os

D = os.path.join(os.path.dirname(os.path.abspath(__file__)), "manifest.d")
V = os.path.dirname(os.path.dirname(D))
base = json.load(open(os.path.join(D, "_base.json")))
reasons = json.load(open(os.path.join(D, "_not_claimed.json")))
ids = [json.loads(l)["id"] for l in open(os.path.join(V, "properties.jsonl"))]
checks = []
for f in sorted(glob.glob(os.path.join(D, "C*.json"))):
    checks.append(json.load(open(f)))
claimed = [c["property_id"] for c in checks]
eng = dict(base.pop("engine"))
eng["serves_properties"] = claimed
commits = os.popen("git -C /repo log --format=%h --grep='^verif hooks' 2>/dev/null").read().split()
base["hooks"]["source_commits"] = commits
m = dict(version=base["version"], setup_cmd=base["setup_cmd"], hooks=base["hooks"], engines=[eng], checks=checks,
         notes=base["notes"],
         not_applicable=[dict(property_id=i, reason=reasons.get(i, reasons["default"])) for i in ids if i not in claimed])
json.dump(m, open(os.path.join(V, "MANIFEST.json"), "w"), indent=1)
print("claimed:", claimed)
