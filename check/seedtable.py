#!/usr/bin/env python3
"""prints the table of seeded changes from seeded/*/meta.json"""
import glob
import json
import os
V = os.path.dirname(os.path.dirname(os.path.abspath(__file__)))
print("| id | breaks | needs to manifest | confirmed | checks (detected?) |\n|---|---|---|---|---|")
for f in sorted(glob.glob(os.path.join(V, "seeded", "*", "meta.json"))):
    m = json.load(open(f))
    ch = ", ".join("%s:%s" % (p, "yes" if c.get("detected") else "NO") for p, c in (m.get("checks") or {}).items())
    conf = m.get("confirmed")
    if os.path.exists(os.path.join(os.path.dirname(f), "OBSOLETE.txt")):
        conf = "obsolete (see OBSOLETE.txt)"
    print("| %s | %s | %s | %s | %s |" % (m["id"], m["property"], (m.get("needs_to_manifest") or "")[:160].replace("|", "/").replace("\n", " "),
                                        conf, ch))
