#!/usr/bin/env python3
"""seedtest.py <mutout-dir> <id> [extra property ...] [--in-place]

Confirms a seeded change (suite green with it, demonstration red with it and green without it) in a scratch
worktree of /repo, then runs the property's quick check against the changed tree and files everything under
/verif/seeded/<id>/ (patch.diff, demo_test.go, meta.json).

Default: isolated — the check runs in a private copy of /verif (/tmp/vseed-<id>) with VERIF_REPO pointing at the
scratch worktree that has the change applied, so that work going on in /verif and /repo is not disturbed.
--in-place: apply the change to /repo itself (git -C /repo apply), run the checks in /verif, undo it straight
afterwards (git -C /repo checkout -- .) and re-run the checks to restore the evidence of the clean tree."""
import json
import os
import re
import shutil
import subprocess
import sys

ENV = dict(os.environ, GOFLAGS="-mod=mod", GOPROXY="off", GOSUMDB="off", GOTOOLCHAIN="local")


def sh(cmd, cwd=None, timeout=3600, env=None):
    p = subprocess.run(cmd, shell=True, cwd=cwd, env=env or ENV, stdout=subprocess.PIPE, stderr=subprocess.STDOUT,
                       text=True, timeout=timeout)
    return p.returncode, p.stdout


def run_check(prop, cwd, repo):
    env = dict(ENV, VERIF_REPO=repo)
    rc, out = sh("python3 check/check.py %s --tier quick" % prop, cwd=cwd, env=env)
    viol = [l for l in out.splitlines() if l.startswith("VIOLATION")]
    return dict(rc=rc, detected=(rc == 1 and bool(viol)), lines=viol[:3], tail=out[-800:])


def main():
    args = [a for a in sys.argv[1:] if not a.startswith("--")]
    in_place = "--in-place" in sys.argv
    src, sid = args[0], args[1]
    extra_props = args[2:]
    meta = json.load(open(os.path.join(src, "meta.json")))
    prop = re.match(r"(C\d+)", sid).group(1)
    patch = os.path.abspath(os.path.join(src, "patch.diff"))
    demo = os.path.join(src, "demo_test.go")
    first = open(demo).readline()
    m = re.search(r"(pkg/\S+_test\.go|\S+_test\.go)", first)
    place = m.group(1) if m else "pkg/yang/mutdemo_test.go"
    if "/" not in place:
        # a bare file name: the repository root for a demo of package main (the command), else pkg/yang
        is_main = any(l.strip() == "package main" for l in open(demo).read().splitlines()[:12])
        place = place if is_main else "pkg/yang/" + place
    wt = "/tmp/seedwt-" + sid
    sh("git -C /repo worktree remove --force %s" % wt)
    sh("git -C /repo worktree add --detach %s HEAD" % wt)
    result = dict(id=sid, property=prop, summary=meta.get("summary"), needs_to_manifest=meta.get("needs_to_manifest"),
                  files_touched=meta.get("files_touched"), demo_placed_at=place, repo_head=sh("git -C /repo rev-parse --short HEAD")[1].strip(),
                  ran=[])
    vcopy = "/tmp/vseed-" + sid
    try:
        rc, out = sh("git apply %s" % patch, cwd=wt)
        result["ran"].append(dict(cmd="git apply patch.diff (scratch worktree of /repo HEAD)", rc=rc, out=out[-300:]))
        if rc != 0:
            result["confirmed"] = False
            result["why"] = "patch does not apply on current HEAD"
            return finish(src, sid, result)
        rc1, out1 = sh("go build ./... && go test -count=1 ./... 2>&1 | tail -6", cwd=wt)
        suite_green = rc1 == 0 and "FAIL" not in out1
        result["ran"].append(dict(cmd="go build ./... && go test -count=1 ./...  (with change)", rc=rc1, out=out1[-400:]))
        shutil.copy(demo, os.path.join(wt, place))
        pkg = "./" + os.path.dirname(place) if os.path.dirname(place) else "."
        rc2, out2 = sh("go test -count=1 -run 'Mut|Demo|Seed' %s 2>&1 | tail -15" % pkg, cwd=wt)
        demo_red = "FAIL" in out2 or "panic" in out2
        result["ran"].append(dict(cmd="demo with change", rc=rc2, out=out2[-600:]))
        sh("git apply -R %s" % patch, cwd=wt)
        rc3, out3 = sh("go test -count=1 -run 'Mut|Demo|Seed' %s 2>&1 | tail -8" % pkg, cwd=wt)
        demo_green = "FAIL" not in out3 and "ok" in out3
        result["ran"].append(dict(cmd="demo without change", rc=rc3, out=out3[-400:]))
        os.remove(os.path.join(wt, place))
        result["confirmed"] = bool(suite_green and demo_red and demo_green)
        result["suite_green_with_change"] = suite_green
        result["demo_fails_with_change"] = demo_red
        result["demo_passes_without_change"] = demo_green
        if result["confirmed"]:
            result["checks"] = {}
            if in_place:
                sh("git -C /repo apply %s" % patch)
                try:
                    for p in [prop] + extra_props:
                        result["checks"][p] = run_check(p, "/verif", "/repo")
                finally:
                    sh("git -C /repo checkout -- . && git -C /repo clean -fdq -- pkg")
                for p in [prop] + extra_props:
                    run_check(p, "/verif", "/repo")          # restore evidence from the clean tree
                result["mode"] = "in-place: git -C /repo apply; checks in /verif; git -C /repo checkout -- ."
            else:
                sh("git apply %s" % patch, cwd=wt)
                sh("rm -rf %s && mkdir -p %s && rsync -a --exclude .git --exclude 'evidence/replay' /verif/ %s/" % (vcopy, vcopy, vcopy))
                for p in [prop] + extra_props:
                    result["checks"][p] = run_check(p, vcopy, wt)
                result["mode"] = "isolated: private copy of /verif, VERIF_REPO=scratch worktree with the change applied"
    finally:
        sh("git -C /repo worktree remove --force %s" % wt)
        sh("rm -rf %s" % vcopy)
    return finish(src, sid, result)


def finish(src, sid, result):
    dst = os.path.join("/verif/seeded", sid)
    os.makedirs(dst, exist_ok=True)
    for f in ("patch.diff", "demo_test.go"):
        if os.path.abspath(os.path.join(src, f)) != os.path.abspath(os.path.join(dst, f)):
            shutil.copy(os.path.join(src, f), os.path.join(dst, f))
    json.dump(result, open(os.path.join(dst, "meta.json"), "w"), indent=1)
    print(json.dumps({k: result.get(k) for k in ("id", "confirmed", "suite_green_with_change", "demo_fails_with_change",
                                                   "demo_passes_without_change", "why")}))
    for p, c in (result.get("checks") or {}).items():
        print(" check", p, "detected" if c["detected"] else "MISSED", c["lines"][:1])
    return 0


if __name__ == "__main__":
    sys.exit(main())
