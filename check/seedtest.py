#!/usr/bin/env python3
"""seedtest.py <mutout-dir> <id>  — confirm a seeded change (suite green with it, demo red with it, demo green
without it) in a scratch worktree, then run the property's quick check against /repo with the change applied,
undo it, and file everything under /verif/seeded/<id>/."""
import json
import os
import re
import shutil
import subprocess
import sys

ENV = dict(os.environ, GOFLAGS="-mod=mod", GOPROXY="off", GOSUMDB="off", GOTOOLCHAIN="local")


def sh(cmd, cwd=None, timeout=1800):
    p = subprocess.run(cmd, shell=True, cwd=cwd, env=ENV, stdout=subprocess.PIPE, stderr=subprocess.STDOUT,
                       text=True, timeout=timeout)
    return p.returncode, p.stdout


def main():
    src, sid = sys.argv[1], sys.argv[2]
    extra_props = sys.argv[3:]   # further properties whose checks should be run as well
    meta = json.load(open(os.path.join(src, "meta.json")))
    prop = re.match(r"(C\d+)", sid).group(1)
    patch = os.path.join(src, "patch.diff")
    demo = os.path.join(src, "demo_test.go")
    first = open(demo).readline()
    m = re.search(r"(pkg/\S+_test\.go|\S+_test\.go)", first)
    place = m.group(1) if m else "pkg/yang/mutdemo_test.go"
    if not place.startswith("pkg/") and "/" not in place:
        place = "pkg/yang/" + place
    wt = "/tmp/seedwt-" + sid
    sh("git -C /repo worktree remove --force %s" % wt)
    rc, out = sh("git -C /repo worktree add --detach %s HEAD" % wt)
    result = dict(id=sid, property=prop, summary=meta.get("summary"), needs_to_manifest=meta.get("needs_to_manifest"),
                  files_touched=meta.get("files_touched"), demo_placed_at=place, ran=[])
    try:
        rc, out = sh("git apply %s" % patch, cwd=wt)
        result["ran"].append(dict(cmd="git apply patch.diff (scratch worktree of /repo HEAD)", rc=rc, out=out[-300:]))
        if rc != 0:
            result["confirmed"] = False
            result["why"] = "patch does not apply on current HEAD"
            return finish(src, sid, result)
        rc1, out1 = sh("go build ./... && go test -count=1 ./... 2>&1 | tail -6", cwd=wt)
        suite_green = rc1 == 0 and "FAIL" not in out1
        result["ran"].append(dict(cmd="go build ./... && go test -count=1 ./...  (with change)", rc=rc1, out=out1[-400:]))
        shutil.copy(demo, os.path.join(wt, place))
        pkg = "./" + os.path.dirname(place)
        rc2, out2 = sh("go test -count=1 -run 'Mut|Demo|Seed' %s 2>&1 | tail -15" % pkg, cwd=wt)
        demo_red = "FAIL" in out2 or "panic" in out2
        result["ran"].append(dict(cmd="demo with change", rc=rc2, out=out2[-600:]))
        sh("git apply -R %s" % patch, cwd=wt)
        rc3, out3 = sh("go test -count=1 -run 'Mut|Demo|Seed' %s 2>&1 | tail -8" % pkg, cwd=wt)
        demo_green = "FAIL" not in out3 and "ok" in out3
        result["ran"].append(dict(cmd="demo without change", rc=rc3, out=out3[-400:]))
        result["confirmed"] = bool(suite_green and demo_red and demo_green)
        result["suite_green_with_change"] = suite_green
        result["demo_fails_with_change"] = demo_red
        result["demo_passes_without_change"] = demo_green
    finally:
        sh("git -C /repo worktree remove --force %s" % wt)
    if result.get("confirmed"):
        # run our checks against /repo with the change applied
        rc, out = sh("git -C /repo apply %s" % patch)
        try:
            result["checks"] = {}
            for p in [prop] + extra_props:
                rc, out = sh("python3 check/check.py %s --tier quick" % p, cwd="/verif", timeout=3600)
                viol = [l for l in out.splitlines() if l.startswith("VIOLATION")]
                result["checks"][p] = dict(rc=rc, detected=(rc == 1 and bool(viol)), lines=viol[:3],
                                           tail=out[-600:])
        finally:
            sh("git -C /repo checkout -- . && git -C /repo clean -fdq -- pkg")
        # restore evidence from a clean run
        for p in [prop] + extra_props:
            sh("python3 check/check.py %s --tier quick" % p, cwd="/verif", timeout=3600)
    return finish(src, sid, result)


def finish(src, sid, result):
    dst = os.path.join("/verif/seeded", sid)
    os.makedirs(dst, exist_ok=True)
    for f in ("patch.diff", "demo_test.go"):
        shutil.copy(os.path.join(src, f), os.path.join(dst, f))
    json.dump(result, open(os.path.join(dst, "meta.json"), "w"), indent=1)
    print(json.dumps({k: result.get(k) for k in ("id", "confirmed", "suite_green_with_change", "demo_fails_with_change",
                                                   "demo_passes_without_change", "why")}))
    for p, c in (result.get("checks") or {}).items():
        print(" check", p, "detected" if c["detected"] else "MISSED", c["lines"][:1])
    return 0


if __name__ == "__main__":
    sys.exit(main())
