#!/usr/bin/env python3
"""check.py Cxx [--tier quick|thorough] [--replay F] | --setup

One run = regenerate tables from /repo, rebuild harness and model, re-check the property's
theorems (make + Print Assumptions + grep gate), run the correspondence / oracle step on
generated cases, classify against KNOWN_FINDINGS.txt, write evidence/Cxx.json.
exit 0: property held on everything explored; exit 1: a 'VIOLATION property=.. replay=..' line."""
import argparse
import importlib
import json
import os
import sys

sys.path.insert(0, os.path.dirname(os.path.abspath(__file__)))
import lib  # noqa: E402


def setup():
    with lib.BuildLock():
        ok, out = lib.build_go()
        if not ok:
            print(out)
            return 1
        ok, out = lib.regen_tables()
        if not ok:
            print(out)
            return 1
        ok, out = lib.coq_make([])
        print(out[-2000:])
        if not ok:
            return 1
        ok, out = lib.build_ml(force=True)
        if not ok:
            print(out)
            return 1
    print("setup ok")
    return 0


def main():
    ap = argparse.ArgumentParser()
    ap.add_argument("pid", nargs="?")
    ap.add_argument("--tier", default=os.environ.get("VERIF_TIER", "quick"))
    ap.add_argument("--replay")
    ap.add_argument("--setup", action="store_true")
    a = ap.parse_args()
    if a.setup:
        return setup()
    tier = a.tier if a.tier in ("quick", "thorough") else "quick"
    seed = int(os.environ.get("VERIF_SEED", "0") or 0)
    pid = a.pid
    mod = importlib.import_module("props." + pid.lower())
    res = lib.Result(pid, tier, seed)
    ok, msg = lib.prepare(pid, need_ml=getattr(mod, "NEED_ML", True))
    if not ok:
        # nothing could be run: the tie itself is broken
        lib.log(msg)
        res.violation("build of the checking machinery failed: " + msg[-1500:],
                      dict(kind="build", log=msg[-3000:]), no_input=True)
        proof = dict(obligations=len(lib.theorems_of(pid)), discharged=0, failed=["build failed"],
                     axioms={}, log=msg, theorems=lib.theorems_of(pid))
        return res.finish(proof, dict(evaluations=0, distinct_nontrivial=0, rule="build failed", samples=[]), [])
    if a.replay:
        return mod.replay(json.load(open(a.replay)), res)
    with lib.BuildLock():
        proof = lib.proof_step(pid, thorough=(tier == "thorough"))
    coverage, assumptions = mod.run(res, tier, seed, proof)
    return res.finish(proof, coverage, assumptions)


if __name__ == "__main__":
    sys.exit(main())
